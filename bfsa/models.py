"""Models of builtins / standard-library calls for the abstract interpreter.

A call that is not modelled becomes an opaque, value-numbered (pure) or event-numbered (impure) term;
nothing is ever executed except constant folding on literal arguments through a closed whitelist.
"""
from __future__ import annotations

import ast
from typing import Any, Dict, List, Optional

from .heap import HObj, PathDead, State, Unsupported
from .load import ClassInfo, FuncInfo, NotConst
from .terms import C, FALSE, NONE, TRUE, Term, cval, fresh_uid, is_const, mk, show, sym

# methods with no side effect on their receiver: value-numbered
PURE_METHODS = {
    "to_bytes", "from_bytes", "hex", "upper", "lower", "strip", "rstrip", "lstrip", "split", "rsplit", "splitlines", "startswith", "endswith",
    "format", "decode", "encode", "get", "items", "keys", "values", "join", "digest", "hexdigest", "copy", "index", "count", "bit_length",
    "replace", "find", "rfind", "isdigit", "zfill", "group", "groups", "tell", "getvalue", "fromhex", "isalnum", "title", "partition",
    "rpartition", "center", "ljust", "rjust", "translate", "casefold", "isspace", "isalpha", "lstrip", "x", "y", "order", "curve", "p", "a", "b",
    "cofactor", "double", "to_affine", "baselen", "verifying_key_length", "fromkeys", "issubset", "union", "difference", "intersection",
}
MUTATING_METHODS = {"append", "extend", "insert", "pop", "remove", "sort", "reverse", "clear", "update", "setdefault", "popitem", "add", "discard",
                    "read", "readline", "readlines", "write", "seek", "close", "feed", "flush", "truncate", "acquire", "release", "send", "next", "__next__"}

CONST_METHOD_WHITELIST = {
    int: {"to_bytes", "bit_length", "from_bytes"},
    bytes: {"hex", "upper", "lower", "decode", "startswith", "endswith", "replace", "strip", "rstrip", "lstrip", "split", "find", "index", "count", "fromhex", "join"},
    str: {"upper", "lower", "encode", "format", "replace", "strip", "split", "startswith", "endswith", "rstrip", "lstrip", "zfill", "find", "index", "count", "join", "isdigit", "splitlines", "rsplit", "title"},
    tuple: {"index", "count"},
    list: {"index", "count", "copy"},
    dict: {"get", "items", "keys", "values", "copy"},
    frozenset: {"union", "issubset"},
}


def _inexact_ctx(st: State, o: HObj) -> bool:
    """is the mutation site inside a symbolic loop / branch that the object was created outside of?"""
    made = set(f for f in o.created_ctx)
    for f in st.ctx:
        if f[0] in ("loop",) and f not in made:
            return True
    return False


def _weaken_list(o: HObj):
    if o.exact:
        o.items = [(x, o.created_ctx, "init") for x in o.items]
        o.exact = False


def _weaken_dict(o: HObj):
    if o.exact:
        o.writes = [(k.term if hasattr(k, 'term') else C(k), v, o.created_ctx) for k, v in o.kv.items()]
        o.sure = set(o.kv.keys())
        o.kv = {}
        o.exact = False


def _keyed_sort(ex, o, key: Term, st: State, node) -> bool:
    """xs.sort(key=f) in a concrete-control scenario: stable sort by keys that evaluate to constants (like sorted(xs, key=f)); False when a key is not decided"""
    items = list(o.items)
    try:
        keys = [ex.call(key, [it], {}, st, node) for it in items]
    except PathDead:
        return False
    tmp = ex.new_list(st, [mk("tuple", (k, C(i))) for i, k in enumerate(keys)])
    if not _term_sort(ex, ex.obj(st, tmp), st, node):
        return False
    order = [cval(unsnap_(t).args[0][1]) for t in ex.obj(st, tmp).items]
    o.items = [items[i] for i in order]
    return True


def namedtuple_fields(fn: Term):
    """field names if fn is the class made by collections.namedtuple(name, fields) with constant arguments"""
    if not (fn.op == "call" and isinstance(fn.args[0], Term) and fn.args[0].op == "ext" and fn.args[0].args[0] in ("collections.namedtuple", "namedtuple") and len(fn.args[1]) >= 2):
        return None
    f = fn.args[1][1]
    if not is_const(f):
        return None
    v = cval(f)
    if isinstance(v, str):
        v = v.replace(",", " ").split()
    if isinstance(v, (list, tuple)) and all(isinstance(x, str) and x.isidentifier() for x in v):
        return tuple(v)
    return None


def make_namedtuple(ex, fields, defaults: Dict[str, Term], args, kwargs, st, node, what: str) -> Term:
    """a named tuple is the plain tuple of its fields; the field names are remembered per tuple term for attribute access"""
    vals: Dict[str, Term] = {}
    if len(args) > len(fields) or any(k not in fields for k in kwargs):
        ex.emit("raise", node, st, exc="TypeError", exc_term=mk("builtin", "TypeError"), args=(), reraise=False, implicit=True, construct="%s(...)" % what)
        raise PathDead()
    for nm, v in zip(fields, args):
        vals[nm] = v
    for k, v in kwargs.items():
        vals[k] = v
    for nm in fields:
        if nm not in vals:
            if nm in defaults:
                vals[nm] = defaults[nm]
            else:
                ex.emit("raise", node, st, exc="TypeError", exc_term=mk("builtin", "TypeError"), args=(), reraise=False, implicit=True, construct="%s(...): missing %s" % (what, nm))
                raise PathDead()
    t = mk("tuple", tuple(vals[nm] for nm in fields))
    ex.nt_fields.setdefault(t.uid, set()).add(tuple(fields))
    return t


def call_model(ex, fn: Term, args: List[Term], kwargs: Dict[str, Term], st: State, node) -> Term:
    op = fn.op
    if op == "call":
        nf = namedtuple_fields(fn)
        if nf is not None and "**" not in kwargs and not any(a.op == "star" for a in args):
            return make_namedtuple(ex, nf, {}, args, kwargs, st, node, cval(fn.args[1][0]) if is_const(fn.args[1][0]) else "namedtuple")
    if op == "builtin":
        return call_builtin(ex, fn.args[0], args, kwargs, st, node)
    if op == "bmeth":
        return call_bmeth(ex, fn.args[0], fn.args[1], args, kwargs, st, node)
    if op == "ext":
        return call_ext(ex, fn.args[0], args, kwargs, st, node)
    if op == "extmeth":
        recv, name, base = fn.args
        if ex.sym_bytes and base in ("BytesIO", "io.BytesIO"):
            r = _concrete_bytesio(ex, recv, name, args, kwargs, st, node)
            if r is not None:
                return r
        if name == "__init__":
            o = ex.obj(st, recv)
            if o is not None:
                o.attrs["__init_args__"] = mk("tuple", tuple(args))
            ex.emit("extcall", node, st, name=base + ".__init__", recv=recv, args=tuple(args), kwargs=dict(kwargs), result=NONE, pure=False)
            return NONE
        return method_on_symbolic(ex, recv, name, args, kwargs, st, node, ext_base=base)
    if op == "attr":
        return method_on_symbolic(ex, fn.args[0], fn.args[1], args, kwargs, st, node)
    if op == "static":
        # table of callables?
        pass
    if op == "super":
        return NONE
    if op in ("global", "sym", "param", "sub", "phi", "call", "elem", "loopvar", "loopexit", "unbound", "missing", "entered"):
        evt = fresh_uid()
        res = mk("call", fn, tuple(args), tuple(sorted(kwargs.items())), evt)
        ex.emit("dyncall", node, st, fnterm=fn, args=tuple(args), kwargs=dict(kwargs), result=res)
        ex.unresolved_calls.append("%s:%d %s" % (ex.frame.fi.file, getattr(node, "lineno", 0), show(fn, 3)))
        return res
    if op == "const":
        ex.emit("dyncall", node, st, fnterm=fn, args=tuple(args), kwargs=dict(kwargs), result=None, not_callable=True)
        return sym("notcallable")
    raise Unsupported("call of %s at line %d" % (show(fn, 3), getattr(node, "lineno", 0)))


def unsnap_(t: Term) -> Term:
    while t.op == "snap":
        t = t.args[0]
    return t


def _term_lt(a: Term, b: Term):
    """a < b for terms whose order is decided by constant components (tuples compare element-wise); None when undecided;
    raises TypeError like Python when the deciding pair is not orderable"""
    if a is b:
        return False
    if is_const(a) and is_const(b):
        return cval(a) < cval(b)
    ta = a.args[0] if a.op == "tuple" else (tuple(C(x) for x in cval(a)) if is_const(a) and isinstance(cval(a), tuple) else None)
    tb = b.args[0] if b.op == "tuple" else (tuple(C(x) for x in cval(b)) if is_const(b) and isinstance(cval(b), tuple) else None)
    if ta is None or tb is None:
        return None
    for x, y in zip(ta, tb):
        if x is y:
            continue
        if is_const(x) and is_const(y):
            if cval(x) == cval(y):
                continue
            return cval(x) < cval(y)
        return None
    return len(ta) < len(tb)


def _term_sort(ex, o, st, node) -> bool:
    """sort an exact list in place when every comparison needed is decided by constants (insertion sort, stable)"""
    items = list(o.items)
    out = []
    try:
        for it in items:
            pos = len(out)
            while pos > 0:
                lt = _term_lt(it, out[pos - 1])
                if lt is None:
                    return False
                if not lt:
                    break
                pos -= 1
            out.insert(pos, it)
    except TypeError:
        ex.emit("raise", node, st, exc="TypeError", exc_term=mk("builtin", "TypeError"), args=(), reraise=False, implicit=True, construct="sort of items that are not orderable")
        raise PathDead()
    o.items = out
    return True


def _concrete_bytesio(ex, recv, name, args, kwargs, st, node):
    """io.BytesIO over a byte string of known length (symbolic contents): buffer and position are tracked exactly"""
    from .exprs import sb_items, sbytes

    o = ex.obj(st, recv)
    if o is None:
        return None
    if name == "__init__":
        items = sb_items(args[0]) if args else []
        if items is None:
            return None
        o.attrs["#buf"] = tuple(items)
        o.attrs["#pos"] = 0
        return NONE
    buf, pos = o.attrs.get("#buf"), o.attrs.get("#pos")
    if buf is None or not isinstance(pos, int):
        return None
    if name == "read":
        n = None
        if args and is_const(args[0]) and (cval(args[0]) is None or isinstance(cval(args[0]), int)):
            n = cval(args[0])
        elif args:
            o.attrs.pop("#buf", None)  # symbolic count: position no longer known
            return None
        end = len(buf) if (n is None or n < 0) else min(len(buf), pos + n)
        out = buf[pos:end] if pos < len(buf) else ()
        o.attrs["#pos"] = max(pos, end) if out else pos
        return sbytes(out)
    if name == "tell":
        return C(pos)
    if name == "getvalue":
        return sbytes(buf)
    if name == "seek":
        if args and is_const(args[0]) and isinstance(cval(args[0]), int) and (len(args) == 1 or (is_const(args[1]) and cval(args[1]) == 0)):
            if cval(args[0]) < 0:
                ex.emit("raise", node, st, exc="ValueError", exc_term=mk("builtin", "ValueError"), args=(), reraise=False, implicit=True, construct="seek to a negative position")
                raise PathDead()
            o.attrs["#pos"] = cval(args[0])
            return C(cval(args[0]))
        o.attrs.pop("#buf", None)
        return None
    return None


# ---------------------------------------------------------------------- method on symbolic receiver
def struct_layout(fmt):
    """(byte order, [field sizes]) of a struct format made of unsigned integer codes with an explicit byte order; None for anything else"""
    import re as _re

    if not isinstance(fmt, (str, bytes)):
        return None
    if isinstance(fmt, bytes):
        fmt = fmt.decode("latin-1")
    m = _re.fullmatch(r"\s*([<>!])((?:\s*\d*[BHILQ])*)\s*", fmt)
    if not m:
        return None
    sizes = []
    for cnt, code in _re.findall(r"(\d*)([BHILQ])", m.group(2)):
        sizes += [{"B": 1, "H": 2, "I": 4, "L": 4, "Q": 8}[code]] * (int(cnt) if cnt else 1)
    return ("little" if m.group(1) == "<" else "big"), sizes


def struct_unpack(ex, fmt, data: Term, st: State, node) -> Optional[Term]:
    """struct.unpack(fmt, data) for unsigned fixed-width fields: a tuple of int.from_bytes(data[a:b], order) values"""
    lay = struct_layout(fmt)
    if lay is None:
        return None
    order, sizes = lay
    total = sum(sizes)
    items = ex.iter_items(data, st) if ex.sym_bytes else None
    if ex.sym_bytes and items is not None:
        if len(items) != total:
            ex.emit("extcall", node, st, name="struct.unpack", recv=None, args=(C(fmt), data), kwargs={}, result=None, pure=True, certain_fail="struct.error")
            raise PathDead()
        from .exprs import sbytes

        out, pos = [], 0
        for n_ in sizes:
            out.append(call_builtin(ex, "int.from_bytes", [sbytes(items[pos:pos + n_]), C(order)], {}, st, node))
            pos += n_
        return mk("tuple", tuple(out))
    fields, pos = [], 0
    res_fields = []
    for n_ in sizes:
        piece = mk("slice", data, C(pos), C(pos + n_), NONE)
        v = mk("call", mk("builtin", "int.from_bytes"), (piece, C(order)), (), 0)
        res_fields.append(v)
        fields.append((n_, v))
        pos += n_
    res = mk("tuple", tuple(res_fields))
    ex.emit("extcall", node, st, name="struct.unpack", recv=None, args=(C(fmt), data), kwargs={}, result=res, pure=True, fields=tuple(fields), order=order, total=total)
    return res


def struct_pack(ex, fmt, vals, st: State, node) -> Optional[Term]:
    """struct.pack(fmt, *vals) for unsigned fixed-width fields: the concatenation of v.to_bytes(size, order)"""
    lay = struct_layout(fmt)
    if lay is None or len(lay[1]) != len(vals) or not vals:
        return None
    order, sizes = lay
    out = None
    for v, n_ in zip(vals, sizes):
        if is_const(v) and isinstance(cval(v), int) and not isinstance(cval(v), bool) and 0 <= cval(v) < (1 << (8 * n_)):
            piece = C(cval(v).to_bytes(n_, order))
            out = piece if out is None else ex.binop("Add", out, piece, st, node)
            continue
        piece = ex.call_method(v, "to_bytes", [C(n_), C(order)], {}, st, node) if hasattr(ex, "call_method") else method_on_symbolic(ex, v, "to_bytes", [C(n_), C(order)], {}, st, node)
        out = piece if out is None else ex.binop("Add", out, piece, st, node)
    return out


def _match_pattern(m: Term):
    """the constant pattern string if m is the result of re.match / fullmatch / search(PATTERN, ...) or of the same methods of re.compile(PATTERN)"""
    m = unsnap_(m)
    if m.op != "call" or not isinstance(m.args[0], Term):
        return None
    f = m.args[0]
    if f.op == "ext" and f.args[0] in ("re.match", "re.fullmatch", "re.search") and m.args[1] and is_const(m.args[1][0]) and isinstance(cval(m.args[1][0]), str):
        return cval(m.args[1][0])
    if f.op == "meth" and f.args[1] in ("match", "fullmatch", "search"):
        p_ = unsnap_(f.args[0])
        if p_.op == "call" and isinstance(p_.args[0], Term) and p_.args[0].op == "ext" and p_.args[0].args[0] == "re.compile" and p_.args[1] and is_const(p_.args[1][0]) and isinstance(cval(p_.args[1][0]), str):
            return cval(p_.args[1][0])
    return None


def _norm_to_bytes(args, kwargs):
    """int.to_bytes(length=1, byteorder="big", *, signed=False) since Python 3.11: the canonical positional spelling (length, byteorder)"""
    args, kwargs = list(args), dict(kwargs)
    if len(args) > 2 or set(kwargs) - {"length", "byteorder", "signed"}:
        return None
    if (len(args) >= 1 and "length" in kwargs) or (len(args) >= 2 and "byteorder" in kwargs):
        return None
    if len(args) < 1:
        args.append(kwargs.pop("length", C(1)))
    if len(args) < 2:
        args.append(kwargs.pop("byteorder", C("big")))
    return args, kwargs


def method_on_symbolic(ex, recv: Term, name: str, args, kwargs, st: State, node, ext_base: Optional[str] = None) -> Term:
    if name == "to_bytes" and ext_base is None and (len(args) < 2 or "byteorder" in kwargs or "length" in kwargs) and ex.obj(st, recv) is None:
        nb_ = _norm_to_bytes(args, kwargs)
        if nb_ is not None:
            args, kwargs = nb_
    if name == "format_map" and ext_base is None and len(args) == 1 and not kwargs:
        # TEMPLATE.format_map(d) with a dictionary whose entries are known one by one is TEMPLATE.format(**d)
        d_ = ex.obj(st, args[0])
        if d_ is not None and d_.kind == "dict" and d_.exact and not d_.writes and all(isinstance(k_, str) for k_ in d_.kv):
            kw_ = dict(d_.kv)
            if ex.obj(st, recv) is None:
                try:
                    rv_ = ex.concrete(recv, st)
                    if isinstance(rv_, str):
                        return call_bmeth(ex, recv, "format", [], kw_, st, node)
                except NotConst:
                    pass
            return method_on_symbolic(ex, recv, "format", [], kw_, st, node)
    if name == "groups" and not args and not kwargs and ext_base is None:
        # m.groups() of a match of a known pattern is (m.group(1), ..., m.group(n))
        pat = _match_pattern(recv)
        if pat is not None:
            import re as _re

            try:
                ng = _re.compile(pat).groups
            except _re.error:
                ng = None
            if ng is not None and ng <= 32:
                return mk("tuple", tuple(method_on_symbolic(ex, recv, "group", [C(i)], {}, st, node) for i in range(1, ng + 1)))
    if name == "get" and recv.op == "static" and ext_base is None and 1 <= len(args) <= 2 and not kwargs and is_const(args[0]) and isinstance(ex.statics.get(recv.args[0]), dict):
        # TABLE.get(k[, default]) of a module / class level table with a known key
        try:
            d_ = ex.statics[recv.args[0]]
            k_ = cval(args[0])
            if k_ in d_:
                v_ = d_[k_]
                return v_ if isinstance(v_, Term) else ex.lift(v_)
            return args[1] if len(args) == 2 else NONE
        except TypeError:
            pass
    if recv.op == "structobj" and ext_base is None:
        fmt = recv.args[0]
        if name == "unpack" and len(args) == 1:
            items_ = ex.iter_items(args[0], st)
            if fmt in (">i", ">I") and items_ is not None and len(items_) == 4 and not ex.sym_bytes:
                return mk("tuple", (mk("word", fmt, tuple(items_)),))  # (as for struct.unpack(fmt, data) above)
            r_ = struct_unpack(ex, fmt, args[0], st, node)
            if r_ is not None:
                return r_
        if name == "pack":
            r_ = struct_pack(ex, fmt, list(args), st, node)
            if r_ is not None:
                return r_
    if ex.sym_bytes and name == "to_bytes" and ext_base is None and args and is_const(args[0]) and isinstance(cval(args[0]), int) and 0 < cval(args[0]) <= 64:
        order = args[1] if len(args) > 1 else kwargs.get("byteorder")
        if order is not None and is_const(order) and cval(order) == "big" and not kwargs.get("signed") and ex.obj(st, recv) is None and recv.op in ("call", "param", "sym", "bin", "uf"):
            from .exprs import sbytes

            k = cval(args[0])
            ex.emit("mcall", node, st, name=name, recv=recv, args=tuple(args), kwargs=dict(kwargs), result=None, pure=True, ext_base=None)
            return sbytes([mk("byteof", recv, k, i) for i in range(k)])
    pure = name in PURE_METHODS and name not in MUTATING_METHODS
    if ext_base in ("BytesIO", "io.BytesIO") and name in ("tell", "getvalue"):
        pure = False
    o = ex.obj(st, recv)
    key_recv = recv
    if o is not None:
        key_recv = mk("snap", recv, o.version) if pure else recv
    evt = 0 if pure else fresh_uid()
    label = (ext_base + "." if ext_base else "") + name
    res = mk("call", mk("meth", key_recv, name), tuple(args), tuple(sorted(kwargs.items())), evt)
    ex.emit("mcall", node, st, name=name, recv=recv, args=tuple(args), kwargs=dict(kwargs), result=res, pure=pure, ext_base=ext_base)
    if not pure and o is not None:
        o.version += 1
    return res


# ---------------------------------------------------------------------- builtins
def _conc_args(ex, args, st):
    return [ex.concrete(a, st) for a in args]


def call_builtin(ex, name: str, args, kwargs, st: State, node) -> Term:
    if name == "int.from_bytes" and len(args) == 1 and not (set(kwargs) - {"byteorder", "signed"}):
        # int.from_bytes(bytes, byteorder="big", *, signed=False) since Python 3.11: the canonical spelling names the byte order positionally
        kwargs = dict(kwargs)
        args = list(args) + [kwargs.pop("byteorder", C("big"))]
    if name == "int.to_bytes" and 1 <= len(args) <= 3:
        nb_ = _norm_to_bytes(args[1:], kwargs)
        if nb_ is not None:
            return method_on_symbolic(ex, args[0], "to_bytes", nb_[0], nb_[1], st, node)
    A = args
    n = len(A)
    if name == "slice" and not kwargs and 1 <= n <= 3:
        # slice(stop) / slice(start, stop[, step]): the object x[a:b:c] builds implicitly
        return mk("sliceobj", *((NONE, A[0], NONE) if n == 1 else (A[0], A[1], A[2] if n == 3 else NONE)))
    if name == "memoryview" and n == 1 and not kwargs:
        # a view of an immutable byte string is indexed, sliced, measured, iterated and converted like the string itself
        o_ = ex.obj(st, A[0])
        if o_ is None or o_.kind not in ("bytearray", "list"):
            return A[0]
    if name == "map" and n >= 2 and not kwargs and A[0].op in ("func", "closure", "bound", "class", "builtin", "partial", "ext", "opcaller"):
        # map(f, xs, ys, ...) over sequences whose items are known one by one: the results, item by item, as far as the shortest goes (evaluated here; the
        # consumer sees them in order)
        lists = [ex.iter_items(a, st) if a.op in ("tuple", "sbytes", "ref") or is_const(a) else None for a in A[1:]]
        if all(l is not None for l in lists) and min(len(l) for l in lists) <= 64:
            k_ = min(len(l) for l in lists)
            return mk("tuple", tuple(ex.call(A[0], [l[i] for l in lists], {}, st, node) for i in range(k_)))
    if name == "sum" and n in (1, 2) and not kwargs:
        its = ex.iter_items(A[0], st) if A[0].op in ("tuple",) or (A[0].op == "ref" and ex.sym_bytes) else None
        if its is not None and 1 <= len(its) <= 64 and not all(is_const(x) for x in its):
            acc = A[1] if n == 2 else None
            for x in its:
                acc = x if acc is None else ex.binop("Add", acc, x, st, node)
            return acc
    # ---- concrete folding for a whitelist of pure builtins
    if name in ("len", "int", "bytes", "tuple", "str", "bool", "min", "max", "abs", "sum", "ord", "chr", "hex", "divmod", "pow", "sorted", "float", "bin", "round", "repr", "any", "all") and not kwargs:
        try:
            vals = _conc_args(ex, A, st)
            import builtins

            try:
                return ex.lift(getattr(builtins, name)(*vals))
            except Exception as e:  # the concrete call itself fails: definite raise
                ex.emit("extcall", node, st, name=name, recv=None, args=tuple(A), kwargs={}, result=None, pure=True, certain_fail=type(e).__name__)
                if ex.sym_bytes:  # concrete-control scenarios: a call that certainly raises ends the path
                    raise PathDead()
                return sym("failed_" + name)
        except NotConst:
            pass
    if name == "int" and n == 2 and ex.sym_bytes and is_const(A[1]) and cval(A[1]) == 16:
        # int(hexlify(<the l bytes of x>), 16) == x
        from .layout import builtin_call as _bc

        bc = _bc(unsnap_(A[0]))
        if bc and bc[0].endswith("hexlify") and len(bc[1]) == 1 and unsnap_(bc[1][0]).op == "sbytes":
            its = unsnap_(bc[1][0]).args[0]
            x0 = its[0]
            if x0.op == "byteof" and x0.args[1] == len(its) and all(x.op == "byteof" and x.args[0] is x0.args[0] and x.args[1] == len(its) and x.args[2] == i for i, x in enumerate(its)):
                return x0.args[0]
    if name == "len" and n == 1:
        a = A[0]
        o = ex.obj(st, a)
        if o is not None:
            if o.kind in ("list", "set", "bytearray") and o.exact:
                return C(len(o.items))
            if o.kind == "dict" and o.exact:
                return C(len(o.kv))
            if o.kind == "obj" and o.cls is not None and o.cls.lookup("__len__") and isinstance(o.cls.lookup("__len__")[1], FuncInfo):
                return ex.call_function(o.cls.lookup("__len__")[1], [a], {}, st, node, self_term=a)
            return mk("len", a, o.version)
        if a.op in ("tuple", "sbytes"):
            return C(len(a.args[0]))
        return mk("len", a)
    if name in ("range", "xrange"):
        try:
            vals = _conc_args(ex, A, st)
            r = range(*vals)
            if len(r) <= 8192:
                return C(tuple(r))
        except (NotConst, TypeError, ValueError):
            pass
        return mk("range", tuple(A))
    if name == "isinstance" and n == 2:
        return _isinstance(ex, A[0], A[1], st)
    if name == "issubclass" and n == 2:
        if A[0].op == "class" and A[1].op == "class":
            c = ex.prog.classes.get(A[0].args[0])
            d = ex.prog.classes.get(A[1].args[0])
            if c and d:
                return C(c.is_subclass_of(d))
        return mk("call", mk("builtin", name), tuple(A), (), 0)
    if name == "list" or name == "tuple":
        if n == 0:
            return ex.new_list(st, []) if name == "list" else C(())
        items = ex.iter_items(A[0], st)
        if items is not None:
            if name == "list":
                return ex.new_list(st, items)
            return mk("tuple", tuple(items)) if not all(is_const(x) for x in items) else C(tuple(cval(x) for x in items))
        o = ex.obj(st, A[0])
        r = ex.new_obj(st, "list")
        ro = ex.obj(st, r)
        ro.exact = False
        if o is not None and o.kind == "list":
            ro.items = list(o.items)
            ro.is_gen = False
        else:
            ro.items = [(mk("elem", A[0], 0), st.ctx, "from")]
        ro.base = A[0]
        ex.emit("extcall", node, st, name=name, recv=None, args=tuple(A), kwargs={}, result=r, pure=True)
        return r
    if name == "dict":
        r = ex.new_obj(st, "dict")
        o = ex.obj(st, r)
        if n == 1:
            src = ex.obj(st, A[0])
            if src is not None and src.kind == "dict":
                o.kv, o.writes, o.exact = dict(src.kv), list(src.writes), src.exact
            else:
                items = ex.iter_items(A[0], st)
                ok = items is not None
                if ok:
                    for it in items:
                        try:
                            k, v = ex.unpack_to(it, 2, st, node)
                        except Exception:
                            ok = False
                            break
                        if is_const(k):
                            o.kv[cval(k)] = v
                        else:
                            _weaken_dict(o)
                            o.writes.append((k, v, st.ctx))
                if not ok:
                    o.exact = False
                    o.writes.append((mk("fromiter"), A[0], st.ctx))
                    o.base = A[0]
                    ex.emit("extcall", node, st, name="dict", recv=None, args=tuple(A), kwargs={}, result=r, pure=True)
        for k, v in kwargs.items():
            o.kv[k] = v
        return r
    if name in ("bytes", "bytearray"):
        if n == 0:
            if name == "bytes":
                return C(b"")
            return ex.new_obj(st, "bytearray")
        if name == "bytearray":
            items = ex.iter_items(A[0], st) if not (is_const(A[0]) and isinstance(cval(A[0]), int)) else None
            if items is not None and not is_const(A[0]) and A[0].op in ("bin", "call") and not ex.sym_bytes:
                # bytearray(n.to_bytes(4, "big")): kept as the first step of the construction history (an integer field), not as its single bytes
                from .exprs import _bytes_of_ints

                if _bytes_of_ints(A[0]) is not None:
                    items = None
            r = ex.new_obj(st, "bytearray")
            o = ex.obj(st, r)
            if items is not None:
                o.items = list(items)
            else:
                o.exact = False
                o.base = A[0]
                o.items = [(A[0], st.ctx, "base")]
            ex.emit("extcall", node, st, name=name, recv=None, args=tuple(A), kwargs=dict(kwargs), result=r, pure=True)
            return r
        a = A[0]
        o = ex.obj(st, a)
        if a.op == "sbytes":
            return a
        if ex.sym_bytes and n == 1 and not kwargs:
            its = ex.iter_items(a, st)
            if its is not None:
                from .exprs import sbytes

                return sbytes(its)
        if o is not None and o.kind == "bytearray":
            res = mk("call", mk("builtin", "bytes"), (mk("snap", a, o.version),), (), 0)
            ex.emit("extcall", node, st, name="bytes", recv=None, args=(a,), kwargs={}, result=res, pure=True, snapshot_of=o.clone())
            return res
        if o is not None and o.kind == "list":
            res = mk("call", mk("builtin", "bytes"), (mk("snap", a, o.version),), (), 0)
            ex.emit("extcall", node, st, name="bytes", recv=None, args=(a,), kwargs={}, result=res, pure=True, snapshot_of=o.clone())
            return res
        res = mk("call", mk("builtin", "bytes"), tuple(A), tuple(sorted(kwargs.items())), 0)
        ex.emit("extcall", node, st, name="bytes", recv=None, args=tuple(A), kwargs=dict(kwargs), result=res, pure=True)
        return res
    if name in ("enumerate", "zip", "reversed"):
        if name == "zip":
            return mk("iterview", "zip", mk("tuple", tuple(A)))
        if name == "enumerate":
            start = A[1] if n > 1 else kwargs.get("start", C(0))
            return mk("iterview", "enumerate", A[0], start)
        return mk("iterview", "reversed", A[0])
    if name == "sorted" or name == "map" or name == "filter":
        if name == "sorted":
            items = ex.iter_items(A[0], st)
            if items is not None and len(items) <= 1:
                return ex.new_list(st, items)
            if items is not None and ex.sym_bytes and set(kwargs) <= {"key"}:
                # concrete-control scenarios: sort by keys that evaluate to constants (stable, like sorted())
                keys = [ex.call(kwargs["key"], [it], {}, st, node) for it in items] if "key" in kwargs else list(items)
                tmp = ex.new_list(st, [mk("tuple", (k, C(i))) for i, k in enumerate(keys)])
                if _term_sort(ex, ex.obj(st, tmp), st, node):
                    order = [cval(unsnap_(t).args[0][1]) for t in ex.obj(st, tmp).items]
                    return ex.new_list(st, [items[i] for i in order])
        res = mk("call", mk("builtin", name), tuple(A), tuple(sorted(kwargs.items())), 0)
        ex.emit("extcall", node, st, name=name, recv=None, args=tuple(A), kwargs=dict(kwargs), result=res, pure=True)
        if name == "map" and A and A[0].op in ("func", "closure", "bound", "class", "builtin", "ext", "partial", "opcaller"):
            # the mapped callable is applied to a generic element
            lid = fresh_uid()
            saved = st.ctx
            st.ctx = st.ctx + (("loop", lid),)
            try:
                try:
                    elt = ex.call(A[0], [ex.elem_of(a, lid, st) for a in A[1:]], {}, st, node)
                except PathDead:
                    elt = sym("dead")
            finally:
                st.ctx = saved
            return mk("comp", "gen", elt, A[1] if n > 1 else NONE, lid, ())
        if name == "sorted" and "key" in kwargs and kwargs["key"].op in ("func", "closure", "bound"):
            lid = fresh_uid()
            saved = st.ctx
            st.ctx = st.ctx + (("loop", lid),)
            try:
                try:
                    ex.call(kwargs["key"], [ex.elem_of(A[0], lid, st)], {}, st, node)
                except PathDead:
                    pass
            finally:
                st.ctx = saved
        if name == "sorted":
            o = ex.obj(st, A[0])
            r = ex.new_obj(st, "list")
            ro = ex.obj(st, r)
            ro.exact = False
            ro.base = res
            ro.items = list(o.items) if (o is not None and o.kind == "list" and not o.exact) else ([(x, st.ctx, "init") for x in o.items] if (o is not None and o.kind == "list") else [(mk("elem", A[0], 0), st.ctx, "from")])
            return r
        return res
    if name in ("any", "all") and n == 1:
        its = ex.iter_items(A[0], st) if A[0].op in ("ref", "tuple") else None
        o_ = ex.obj(st, A[0])
        if its is not None and len(its) <= 16 and not (o_ is not None and getattr(o_, "is_gen", False) and not ex.sym_bytes and False):
            # any / all over items known one by one: the disjunction / conjunction of their truth values
            ts = [ex.truth(x, st) for x in its]
            absorbing = name == "any"
            if any(is_const(t_) and bool(cval(t_)) == absorbing for t_ in ts):
                return C(absorbing)
            ts = [t_ for t_ in ts if not is_const(t_)]
            if not ts:
                return C(not absorbing)
            return ts[0] if len(ts) == 1 else mk("or" if absorbing else "and", tuple(ts))
        res = mk("call", mk("builtin", name), tuple(A), (), 0)
        return res
    if name == "super":
        if n == 2 and A[0].op == "class":
            return mk("super", A[0].args[0], A[1])
        raise Unsupported("super() form")
    if name == "type" and n == 1:
        o = ex.obj(st, A[0])
        if o is not None and o.kind == "obj" and o.cls is not None and o.origin is None:
            return mk("class", o.cls.qualname)
        if is_const(A[0]):
            return mk("builtin", type(cval(A[0])).__name__)
        return mk("typeof", A[0])
    if name == "getattr" and n >= 2 and is_const(A[1]):
        if n == 3 and ex.sym_bytes:
            mark = len(ex.trace)
            try:
                return ex.get_attr(A[0], cval(A[1]), st, node)
            except PathDead:
                if ex._dead is not None and str(ex._dead[1]) == "AttributeError":
                    del ex.trace[mark:]  # getattr(obj, name, default) swallows exactly this
                    ex._dead = None
                    return A[2]
                raise
        return ex.get_attr(A[0], cval(A[1]), st, node)
    if name == "hasattr" and n == 2:
        return mk("call", mk("builtin", name), tuple(A), (), 0)
    if name == "setattr" and n == 3 and is_const(A[1]):
        ex.store_attr(A[0], cval(A[1]), A[2], st, node)
        return NONE
    if name == "print":
        return NONE
    if name == "open":
        evt = fresh_uid()
        res = mk("call", mk("builtin", "open"), tuple(A), tuple(sorted(kwargs.items())), evt)
        ex.emit("extcall", node, st, name="open", recv=None, args=tuple(A), kwargs=dict(kwargs), result=res, pure=False)
        return res
    if name in ("iter",) and n == 1 and ex.sym_bytes:
        # concrete-control scenarios: an iterator over items known one by one is an object of its own that next() consumes
        its_ = ex.iter_items(A[0], st)
        o0_ = ex.obj(st, A[0])
        if its_ is not None and len(its_) <= 4096 and not (o0_ is not None and getattr(o0_, "is_iter", False)):
            r_ = ex.new_obj(st, "list", label="iterator")
            oi_ = ex.obj(st, r_)
            oi_.items = list(its_)
            oi_.is_iter = True
            return r_
    if name in ("iter",) and n == 1:
        return A[0]
    if name == "next" and ex.sym_bytes and A:
        oi_ = ex.obj(st, A[0])
        if oi_ is not None and getattr(oi_, "is_iter", False) and oi_.exact:
            if oi_.items:
                oi_.version += 1
                return oi_.items.pop(0)
            if n > 1:
                return A[1]
            ex.emit("raise", node, st, exc="StopIteration", exc_term=mk("builtin", "StopIteration"), args=(), reraise=False, implicit=True, construct="next() of an exhausted iterator")
            raise PathDead()
        # concrete-control scenarios: the first element of a freshly built generator / list with known elements
        its = ex.iter_items(A[0], st)
        if its is not None:
            if its:
                return its[0]
            if n > 1:
                return A[1]
            ex.emit("raise", node, st, exc="StopIteration", exc_term=mk("builtin", "StopIteration"), args=(), reraise=False, implicit=True, construct="next() of an empty iterator")
            raise PathDead()
    if name in ("next", "__next__"):
        evt = fresh_uid()
        res = mk("call", mk("builtin", "next"), tuple(A), (), evt)
        ex.emit("extcall", node, st, name="next", recv=None, args=tuple(A), kwargs={}, result=res, pure=False)
        return res
    if name == "int.from_bytes" and ex.sym_bytes and A and A[0].op == "sbytes":
        order = A[1] if n > 1 else kwargs.get("byteorder")
        its = A[0].args[0]
        if order is not None and is_const(order) and cval(order) == "big" and not kwargs.get("signed") and all(x.op == "byteof" for x in its):
            x0 = its[0]
            if x0.args[1] == len(its) and all(x.args[0] is x0.args[0] and x.args[1] == len(its) and x.args[2] == i for i, x in enumerate(its)):
                return x0.args[0]  # from_bytes(v.to_bytes(n, "big"), "big") == v
    if name == "int.from_bytes" or name == "bytes_to_int":
        res = mk("call", mk("builtin", "int.from_bytes"), tuple(A), tuple(sorted(kwargs.items())), 0)
        try:
            vals = _conc_args(ex, A, st)
            return C(int.from_bytes(*vals, **{k: ex.concrete(v, st) for k, v in kwargs.items()}))
        except (NotConst, TypeError, ValueError):
            pass
        ex.emit("extcall", node, st, name="int.from_bytes", recv=None, args=tuple(A), kwargs=dict(kwargs), result=res, pure=True)
        return res
    if name == "bytes.fromhex" and n == 1 and not kwargs:
        try:
            v = ex.concrete(A[0], st)
            try:
                return C(bytes.fromhex(v))
            except (ValueError, TypeError) as e:
                ex.emit("extcall", node, st, name=name, recv=None, args=tuple(A), kwargs={}, result=None, pure=True, certain_fail=type(e).__name__)
                if ex.sym_bytes:  # concrete-control scenarios: a call that certainly raises ends the path
                    raise PathDead()
                return sym("failed_fromhex")
        except NotConst:
            pass
    if name in ("bytes.fromhex", "bytearray.fromhex", "dict.fromkeys", "str.join", "bytes.join", "int.to_bytes", "str.format", "object.__new__", "object.__init__", "object.__setattr__"):
        res = mk("call", mk("builtin", name), tuple(A), tuple(sorted(kwargs.items())), 0)
        ex.emit("extcall", node, st, name=name, recv=None, args=tuple(A), kwargs=dict(kwargs), result=res, pure=True)
        return res
    if name in ("set", "frozenset"):
        if n == 0:
            return ex.new_obj(st, "set")
        items = ex.iter_items(A[0], st)
        r = ex.new_obj(st, "set")
        o = ex.obj(st, r)
        if items is not None:
            o.items = items
        else:
            o.exact = False
            o.items = [(mk("elem", A[0], 0), st.ctx, "from")]
        return r
    if name in ("id", "hash", "callable", "repr", "str", "int", "float", "bool", "min", "max", "abs", "sum", "ord", "chr", "hex", "bin", "oct", "divmod", "pow", "round", "format", "len", "memoryview", "object", "slice", "vars", "dir"):
        if name == "str" and n == 1:
            o = ex.obj(st, A[0])
            if o is not None and o.kind == "obj" and o.cls is not None:
                m = o.cls.lookup("__str__")
                if m and isinstance(m[1], FuncInfo):
                    return ex.call_function(m[1], [A[0]], {}, st, node, self_term=A[0])
        if name == "bool" and n == 1:
            return ex.truth(A[0], st)
        res = mk("call", mk("builtin", name), tuple(A), tuple(sorted(kwargs.items())), 0)
        ex.emit("extcall", node, st, name=name, recv=None, args=tuple(A), kwargs=dict(kwargs), result=res, pure=True)
        return res
    from .heap import BUILTIN_EXC

    if name in BUILTIN_EXC:
        r = ex.new_obj(st, "obj", label=name)
        o = ex.obj(st, r)
        o.attrs["__exc__"] = C(name)
        o.attrs["args"] = mk("tuple", tuple(A))
        return r
    evt = fresh_uid()
    res = mk("call", mk("builtin", name), tuple(A), tuple(sorted(kwargs.items())), evt)
    ex.emit("extcall", node, st, name=name, recv=None, args=tuple(A), kwargs=dict(kwargs), result=res, pure=False)
    return res


def _isinstance(ex, v: Term, c: Term, st: State) -> Term:
    alts = list(c.args[0]) if c.op == "tuple" else ([C(x) for x in cval(c)] if is_const(c) and isinstance(cval(c), tuple) else [c])
    if v.op == "snap":
        v = v.args[0]
    o = ex.obj(st, v)
    results = []
    for a in alts:
        r = None
        if a.op == "class":
            ci = ex.prog.classes.get(a.args[0])
            if o is not None and o.kind == "obj" and o.cls is not None and ci is not None:
                if o.cls.is_subclass_of(ci):
                    r = True
                elif o.origin is None:
                    r = False
            elif is_const(v) or (o is not None and o.kind != "obj"):
                r = False
        elif a.op == "builtin":
            tn = a.args[0]
            pyt = {"int": int, "str": str, "bytes": bytes, "dict": dict, "list": list, "tuple": tuple, "bool": bool, "bytearray": bytearray, "float": float, "type": type, "object": object, "set": set}.get(tn)
            if pyt is not None:
                if is_const(v):
                    r = isinstance(cval(v), pyt)
                elif v.op == "static":
                    r = isinstance(ex.statics[v.args[0]], pyt)
                elif o is not None:
                    kind_ty = {"list": list, "dict": dict, "bytearray": bytearray, "set": set}.get(o.kind)
                    if kind_ty is not None:
                        r = issubclass(kind_ty, pyt)
                    elif o.origin is None and o.cls is not None and pyt is not object:
                        r = False
                elif v.op == "tuple":
                    r = pyt in (tuple, object)
                elif v.op == "sbytes":
                    r = pyt in (bytes, object)
                else:
                    from .types import type_of

                    ts = type_of(ex, v, st)
                    if ts and "?" not in ts:
                        names = {x.split(":")[0] for x in ts}
                        tmap = {"int": {"int", "bool"}, "str": {"str"}, "bytes": {"bytes"}, "dict": {"dict"}, "list": {"list"}, "tuple": {"tuple"}, "bool": {"bool"}, "bytearray": {"bytearray"}}
                        want = tmap.get(tn)
                        if want is not None:
                            if names <= want:
                                r = True
                            elif not (names & want):
                                r = False
        results.append(r)
    if any(r is True for r in results):
        return TRUE
    if all(r is False for r in results):
        return FALSE
    return mk("isinst", v, c)


# ---------------------------------------------------------------------- methods of builtin containers / constants
def call_bmeth(ex, recv: Term, name: str, args, kwargs, st: State, node) -> Term:
    o = ex.obj(st, recv)
    A = args
    if o is None:
        # constant receiver
        try:
            rv = ex.concrete(recv, st)
            for ty, names in CONST_METHOD_WHITELIST.items():
                if isinstance(rv, ty) and not (ty is int and isinstance(rv, bool)) and name in names:
                    vals = _conc_args(ex, A, st)
                    kw = {k: ex.concrete(v, st) for k, v in kwargs.items()}
                    try:
                        r = getattr(rv, name)(*vals, **kw)
                    except Exception as e:
                        ex.emit("mcall", node, st, name=name, recv=recv, args=tuple(A), kwargs=dict(kwargs), result=None, pure=True, certain_fail=type(e).__name__)
                        if ex.sym_bytes:  # concrete-control scenarios: a call that certainly raises ends the path
                            raise PathDead()
                        return sym("failed_" + name)
                    if name in ("items", "keys", "values"):
                        r = tuple(r)
                    return ex.lift(r)
        except NotConst:
            pass
        if recv.op == "static" and name in ("items", "keys", "values"):
            return mk("iterview", name, recv)
        if name == "join":
            return _join(ex, recv, A[0], st, node)
        if name == "format":
            res = mk("call", mk("meth", recv, "format"), tuple(A), tuple(sorted(kwargs.items())), 0)
            ex.emit("mcall", node, st, name="format", recv=recv, args=tuple(A), kwargs=dict(kwargs), result=res, pure=True)
            return res
        return method_on_symbolic(ex, recv, name, A, kwargs, st, node)
    inexact = _inexact_ctx(st, o)
    k = o.kind
    if k == "bytearray" and getattr(o, "is_stream", False) and name != "extend":
        # a write-only io.BytesIO(): write(x) appends x, getvalue() is everything written so far
        if name == "write" and len(A) == 1:
            call_bmeth(ex, recv, "extend", [A[0]], {}, st, node)
            return mk("len", A[0])
        if name == "getvalue" and not A:
            return call_builtin(ex, "bytes", [recv], {}, st, node)
        if name in ("close", "flush", "__exit__") :
            return NONE
        if name == "__enter__":
            return recv
        raise Unsupported("io.BytesIO used for more than writing (%s)" % name)
    if k in ("list", "bytearray"):
        if name == "append" and len(A) == 1:
            if o.exact and not inexact:
                o.items.append(A[0])
            else:
                _weaken_list(o)
                o.items.append((A[0], st.ctx, "append"))
            o.version += 1
            ex.emit("mutate", node, st, obj=recv, how="append", value=A[0])
            return NONE
        if name == "extend" and len(A) == 1:
            items = ex.iter_items(A[0], st)
            if o.exact and not inexact and items is not None:
                o.items.extend(items)
            else:
                _weaken_list(o)
                o.items.append((A[0], st.ctx, "extend"))
            o.version += 1
            ex.emit("mutate", node, st, obj=recv, how="extend", value=A[0])
            return NONE
        if name == "insert" and len(A) == 2:
            if o.exact and not inexact and is_const(A[0]):
                o.items.insert(cval(A[0]), A[1])
            else:
                _weaken_list(o)
                o.items.append((A[1], st.ctx, ("insert", A[0])))
            o.version += 1
            ex.emit("mutate", node, st, obj=recv, how="insert", value=A[1], index=A[0])
            return NONE
        if name == "copy" and not A:
            r = ex.new_obj(st, k)
            ro = ex.obj(st, r)
            ro.items, ro.exact = list(o.items), o.exact
            return r
        if name == "pop":
            ex.emit("mutate", node, st, obj=recv, how="pop", value=None, index=(A[0] if A else None), exact_len=(len(o.items) if o.exact else None))
            if o.exact and not inexact and o.items and (not A or is_const(A[0])):
                o.version += 1
                return o.items.pop(cval(A[0]) if A else -1)
            _weaken_list(o)
            o.version += 1
            return mk("call", mk("meth", recv, "pop"), tuple(A), (), fresh_uid())
        if name in ("sort", "reverse", "clear", "remove"):
            ex.emit("mutate", node, st, obj=recv, how=name, value=(A[0] if A else None), kwargs=dict(kwargs))
            if name == "sort" and "key" in kwargs and kwargs["key"].op in ("func", "closure", "bound"):
                lid = fresh_uid()
                saved = st.ctx
                st.ctx = st.ctx + (("loop", lid),)
                try:
                    try:
                        ex.call(kwargs["key"], [ex.elem_of(recv, lid, st)], {}, st, node)
                    except PathDead:
                        pass
                finally:
                    st.ctx = saved
            if name == "clear" and not inexact:
                o.items, o.exact = [], True
            elif name == "reverse" and o.exact and not inexact:
                o.items.reverse()
            elif name == "sort" and o.exact and len(o.items) <= 1:
                pass
            elif name == "sort" and o.exact and not inexact and ex.sym_bytes and not kwargs and _term_sort(ex, o, st, node):
                pass
            elif name == "sort" and o.exact and not inexact and ex.sym_bytes and set(kwargs) == {"key"} and _keyed_sort(ex, o, kwargs["key"], st, node):
                pass
            else:
                _weaken_list(o)
            o.version += 1
            return NONE
        if name in ("index", "count"):
            return method_on_symbolic(ex, recv, name, A, kwargs, st, node)
        if name in ("hex", "decode", "startswith", "endswith") and k == "bytearray":
            return method_on_symbolic(ex, recv, name, A, kwargs, st, node)
    if k == "dict":
        if name in ("items", "keys", "values") and not A:
            return mk("iterview", name, recv, o.version)
        if name == "get":
            key = A[0]
            dflt = A[1] if len(A) > 1 else NONE
            if o.exact:
                try:
                    kk = ex.concrete(key, st)
                    try:
                        return o.kv[kk] if kk in o.kv else dflt
                    except TypeError:
                        pass
                except NotConst:
                    pass
            res = mk("call", mk("meth", mk("snap", recv, o.version), "get"), tuple(A), (), 0)
            ex.emit("mcall", node, st, name="get", recv=recv, args=tuple(A), kwargs={}, result=res, pure=True)
            return res
        if name == "pop":
            key = A[0]
            ex.emit("mutate", node, st, obj=recv, how="dictpop", value=None, index=key, has_default=len(A) > 1)
            if o.exact and is_const(key) and not inexact:
                try:
                    if cval(key) in o.kv:
                        o.version += 1
                        return o.kv.pop(cval(key))
                    if len(A) > 1:
                        return A[1]
                except TypeError:
                    pass
            res = mk("call", mk("meth", mk("snap", recv, o.version), "pop"), tuple(A), (), fresh_uid())
            _weaken_dict(o)
            if o.sure is not None:
                if is_const(key):
                    try:
                        o.sure.discard(cval(key))
                    except TypeError:
                        pass
                else:
                    o.sure = set()
            o.writes.append((key, mk("deleted"), st.ctx))
            o.version += 1
            return res
        if name == "update":
            ex.emit("mutate", node, st, obj=recv, how="update", value=(A[0] if A else None))
            src = ex.obj(st, A[0]) if A else None
            if src is not None and src.kind == "dict" and src.exact and o.exact and not inexact:
                o.kv.update(src.kv)
            else:
                _weaken_dict(o)
                if A:
                    o.writes.append((mk("fromiter"), A[0], st.ctx))
            for kx, vx in kwargs.items():
                if o.exact:
                    o.kv[kx] = vx
                else:
                    o.writes.append((C(kx), vx, st.ctx))
            o.version += 1
            return NONE
        if name == "copy":
            r = ex.new_obj(st, "dict")
            ro = ex.obj(st, r)
            ro.kv, ro.writes, ro.exact = dict(o.kv), list(o.writes), o.exact
            return r
        if name in ("setdefault", "clear", "popitem"):
            ex.emit("mutate", node, st, obj=recv, how=name, value=None)
            _weaken_dict(o)
            o.version += 1
            return mk("call", mk("meth", recv, name), tuple(A), (), fresh_uid())
    if k == "set":
        if name in ("add", "discard", "remove", "update"):
            ex.emit("mutate", node, st, obj=recv, how=name, value=(A[0] if A else None))
            _weaken_list(o)
            o.items.append((A[0] if A else NONE, st.ctx, name))
            o.version += 1
            return NONE
    return method_on_symbolic(ex, recv, name, A, kwargs, st, node)


def _join(ex, sep: Term, it: Term, st: State, node) -> Term:
    items = ex.iter_items(it, st)
    if items is not None:
        if all(is_const(x) for x in items) and is_const(sep):
            try:
                return C(cval(sep).join(cval(x) for x in items))
            except TypeError:
                pass
        if ex.sym_bytes and is_const(sep) and isinstance(cval(sep), bytes):
            from .exprs import sb_items, sbytes

            parts = [sb_items(x) for x in items]
            if all(p is not None for p in parts):
                out = []
                for i, p in enumerate(parts):
                    if i:
                        out.extend(C(b) for b in cval(sep))
                    out.extend(p)
                return sbytes(out)
        o = ex.obj(st, it)
        res = mk("join", sep, mk("tuple", tuple(items)))
        ex.emit("mcall", node, st, name="join", recv=sep, args=(it,), kwargs={}, result=res, pure=True)
        return res
    o = ex.obj(st, it)
    arg = it
    if o is not None:
        arg = mk("snap", it, o.version)
        res = mk("join", sep, arg)
        ex.emit("mcall", node, st, name="join", recv=sep, args=(it,), kwargs={}, result=res, pure=True, snapshot_of=o.clone())
        return res
    res = mk("join", sep, arg)
    ex.emit("mcall", node, st, name="join", recv=sep, args=(it,), kwargs={}, result=res, pure=True)
    return res


# ---------------------------------------------------------------------- external (stdlib) functions
PURE_EXT = {
    "hashlib.sha256", "hashlib.sha1", "hashlib.sha512", "hashlib.sha384", "hashlib.sha224", "hashlib.md5", "binascii.unhexlify", "binascii.hexlify", "binascii.a2b_hex", "binascii.b2a_hex",
    "re.sub", "re.match", "re.compile", "re.search", "re.fullmatch", "struct.unpack", "struct.pack", "copy.copy", "copy.deepcopy", "math.ceil",
    "math.log", "math.floor", "math.sqrt", "base64.b64decode", "base64.b64encode", "collections.namedtuple", "functools.reduce", "functools.partial", "itertools.chain", "itertools.zip_longest", "itertools.pairwise", "itertools.accumulate",
    "hmac.new", "hmac.compare_digest", "math.gcd", "binascii.Error", "typing.cast",
}


def _is_big_endian_fold(ex, f: Term, st: State, node) -> bool:
    """f(v, o) == v * 256 + o for every accumulator v >= 0 and octet o in 0..255 (decided by evaluating the function's result term on a grid:
    `(v << 8) | o`, `v * 0x100 + o`, `(v << 8) + o` are the same function there)"""
    from .evalterm import NoEval, eval_term

    key = ("be_fold", f.uid)
    memo = getattr(ex, "_fold_memo", None)
    if memo is None:
        memo = ex._fold_memo = {}
    if key in memo:
        return memo[key]
    v, o = sym("fold_acc"), sym("fold_octet")
    ok = False
    mark = len(ex.trace)
    try:
        sub = st.fork()
        r = ex.call(f, [v, o], {}, sub, node)
        ok = True
        for acc in (0, 1, 2, 127, 128, 255, 256, 257, 0xABCD, 0xFFFF, 0x10000, 0x12345678, (1 << 64) + 3):
            for oc in (0, 1, 2, 15, 16, 127, 128, 254, 255):
                if eval_term(r, {v.uid: acc, o.uid: oc}) != acc * 256 + oc:
                    ok = False
                    break
            if not ok:
                break
    except (NoEval, Unsupported, PathDead, TypeError, ValueError, KeyError, ZeroDivisionError, AttributeError):
        ok = False
    del ex.trace[mark:]
    memo[key] = ok
    return ok


def call_ext(ex, name: str, args, kwargs, st: State, node) -> Term:
    A = args
    hooks_ = getattr(ex, "ext_hooks", None)
    if hooks_ and name in hooks_:
        r_ = hooks_[name](ex, args, kwargs, st, node)
        if r_ is not None:
            return r_
    if name in ("copy.copy",) and len(A) == 1:
        o = ex.obj(st, A[0])
        if o is not None and o.kind in ("list", "dict", "bytearray", "set"):
            return call_bmeth(ex, A[0], "copy", [], {}, st, node)
    if name == "struct.unpack" and len(A) == 2 and is_const(A[0]):
        fmt = cval(A[0])
        items = ex.iter_items(A[1], st)
        if fmt in (">i", ">I") and items is not None and len(items) == 4 and not ex.sym_bytes:
            return mk("tuple", (mk("word", fmt, tuple(items)),))
        r_ = struct_unpack(ex, fmt, A[1], st, node)
        if r_ is not None:
            return r_
    if name == "struct.calcsize" and len(A) == 1 and is_const(A[0]):
        import struct as _struct

        try:
            return C(_struct.calcsize(cval(A[0])))
        except (_struct.error, TypeError):
            pass
    if name == "struct.Struct" and len(A) == 1 and is_const(A[0]) and (struct_layout(cval(A[0])) is not None or cval(A[0]) in (">i", ">I")):
        return mk("structobj", cval(A[0]))
    if name == "struct.pack" and A and is_const(A[0]):
        r_ = struct_pack(ex, cval(A[0]), list(A[1:]), st, node)
        if r_ is not None:
            return r_
    if name in ("io.BytesIO", "BytesIO") and not A and not kwargs:
        r = ex.new_obj(st, "bytearray", label="bytesio")
        ex.obj(st, r).is_stream = True
        return r
    if name.startswith("operator.") and not kwargs:
        # the operator module's functions are the operators themselves
        opn = name.split(".", 1)[1].strip("_")
        BIN = {"xor": "BitXor", "and": "BitAnd", "or": "BitOr", "add": "Add", "sub": "Sub", "mul": "Mult", "floordiv": "FloorDiv", "mod": "Mod", "lshift": "LShift", "rshift": "RShift", "pow": "Pow"}
        CMP = {"eq": "Eq", "ne": "NotEq", "lt": "Lt", "le": "LtE", "gt": "Gt", "ge": "GtE", "is": "Is", "is_not": "IsNot"}
        if opn in BIN and len(A) == 2:
            return ex.binop(BIN[opn], A[0], A[1], st, node)
        if opn in CMP and len(A) == 2:
            return ex.compare(CMP[opn], A[0], A[1], st, node)
        if opn == "neg" and len(A) == 1:
            return C(-cval(A[0])) if is_const(A[0]) and isinstance(cval(A[0]), int) else mk("un", "USub", A[0])
        if opn == "not" and len(A) == 1:
            from .exprs import neg as _neg

            return _neg(ex.truth(A[0], st))
        if opn == "getitem" and len(A) == 2:
            return ex.do_subscript(A[0], A[1], None, st, node)
        if opn in ("methodcaller", "attrgetter", "itemgetter") and A and all(is_const(a) for a in A[:1]):
            return mk("opcaller", opn, tuple(A))
    if name in ("itertools.pairwise", "pairwise") and len(A) == 1 and not kwargs:
        return mk("iterview", "pairwise", A[0])
    if name in ("itertools.zip_longest", "zip_longest") and len(A) >= 1 and set(kwargs) <= {"fillvalue"}:
        return mk("iterview", "zip_longest", mk("tuple", tuple(A)), kwargs.get("fillvalue", NONE))
    if name in ("functools.partial", "partial") and A and A[0].op in ("closure", "func", "bound", "class", "partial", "ext", "builtin"):
        # partial(f, *a, **k) only stores its arguments; calling it is f(*a, *args, **{**k, **kwargs})
        return mk("partial", A[0], tuple(A[1:]), tuple(sorted(kwargs.items())))
    if name in ("functools.reduce", "reduce") and len(A) == 3 and not kwargs and A[0].op in ("closure", "func", "bound", "builtin", "ext") and is_const(A[2]) and cval(A[2]) == 0 \
            and not isinstance(cval(A[2]), bool) and _is_big_endian_fold(ex, A[0], st, node):
        # reduce(lambda v, o: v * 256 + o, data, 0) over a byte string is int.from_bytes(data, "big")
        return call_builtin(ex, "int.from_bytes", [A[1], C("big")], {}, st, node)
    if name in ("functools.reduce", "reduce") and len(A) == 3 and not kwargs and A[0].op in ("closure", "func", "bound", "builtin", "ext", "partial"):
        # reduce(f, xs, init) is `acc = init; for x in xs: acc = f(acc, x)`: interpreted as exactly that loop
        import ast as _ast

        loop = _ast.parse("for __reduce_x in __reduce_it:\n    __reduce_acc = __reduce_fn(__reduce_acc, __reduce_x)\n").body[0]
        for n_ in _ast.walk(loop):
            if hasattr(n_, "lineno"):
                n_.lineno = getattr(node, "lineno", 0)
                n_.end_lineno = getattr(node, "end_lineno", getattr(node, "lineno", 0))
                n_.col_offset = getattr(node, "col_offset", 0)
                n_.end_col_offset = getattr(node, "end_col_offset", 0)
        env = st.envs[-1]
        saved = {k: env.get(k) for k in ("__reduce_fn", "__reduce_it", "__reduce_acc", "__reduce_x")}
        env["__reduce_fn"], env["__reduce_it"], env["__reduce_acc"] = A[0], A[1], A[2]
        out = ex.st_for(loop, st)
        if out is None:
            raise PathDead()
        res = out.envs[-1].get("__reduce_acc")
        st.heap, st.envs, st.facts, st.ctx = out.heap, out.envs, out.facts, out.ctx
        env = st.envs[-1]
        for k, v in saved.items():
            if v is None:
                env.pop(k, None)
            else:
                env[k] = v
        if res is not None:
            return res
    if name in ("re.sub",) and len(A) >= 3:
        try:
            vals = _conc_args(ex, A[:3], st)
            import re

            if all(isinstance(v, str) for v in vals):
                return C(re.sub(*vals))
        except NotConst:
            pass
    if name in ("itertools.accumulate", "accumulate") and len(A) == 2 and not kwargs and A[1].op in ("func", "closure", "bound", "builtin", "partial", "ext", "opcaller"):
        # accumulate(xs, f) over items known one by one: x0, f(x0, x1), f(f(x0, x1), x2), ...
        its_ = ex.iter_items(A[0], st)
        if its_ is not None and len(its_) <= 64:
            out_ = []
            for x_ in its_:
                out_.append(x_ if not out_ else ex.call(A[1], [out_[-1], x_], {}, st, node))
            return mk("tuple", tuple(out_))
    if name in ("itertools.chain", "chain") and ex.sym_bytes:
        parts = [ex.iter_items(a, st) for a in A]
        if all(p is not None for p in parts):
            return ex.new_list(st, [x for p in parts for x in p])
    if name in ("binascii.hexlify", "binascii.b2a_hex") and len(A) == 1:
        try:
            import binascii

            v = ex.concrete(A[0], st)
            if isinstance(v, (bytes, bytearray)):
                return C(binascii.hexlify(bytes(v)))
        except NotConst:
            pass
    if name in ("binascii.unhexlify", "binascii.a2b_hex") and len(A) == 1:
        try:
            import binascii

            v = ex.concrete(A[0], st)
            try:
                return C(binascii.unhexlify(v))
            except Exception as e:
                ex.emit("extcall", node, st, name=name, recv=None, args=tuple(A), kwargs={}, result=None, pure=True, certain_fail=type(e).__name__)
                if ex.sym_bytes:  # concrete-control scenarios: a call that certainly raises ends the path
                    raise PathDead()
                return sym("failed")
        except NotConst:
            pass
    pure = name in PURE_EXT
    evt = 0 if pure else fresh_uid()
    res = mk("call", mk("ext", name), tuple(A), tuple(sorted(kwargs.items())), evt)
    ex.emit("extcall", node, st, name=name, recv=None, args=tuple(A), kwargs=dict(kwargs), result=res, pure=pure)
    return res


# ---------------------------------------------------------------------- repo-specific hooks
def repo_summary(ex, fi: FuncInfo, args, kwargs, st: State, node) -> Optional[Term]:
    hook = getattr(ex, "summary_hook", None)
    if hook is not None:
        return hook(ex, fi, args, kwargs, st, node)
    return None


def dataclass_fields(c: ClassInfo):
    """[(field name, default expression or None)] in declaration order if c is a @dataclass without a hand-written __init__ (and without dataclass bases), else None"""
    import ast as _ast

    def is_dc(d):
        f = d.func if isinstance(d, _ast.Call) else d
        return (isinstance(f, _ast.Name) and f.id == "dataclass") or (isinstance(f, _ast.Attribute) and f.attr == "dataclass")

    if not any(is_dc(d) for d in c.node.decorator_list) or "__init__" in c.methods:
        return None
    if any(isinstance(b, ClassInfo) for b in c.mro()[1:]):
        return None
    out = []
    for b_ in c.node.body:
        if isinstance(b_, _ast.AnnAssign) and isinstance(b_.target, _ast.Name):
            ann = _ast.unparse(b_.annotation)
            if ann.startswith("ClassVar") or ann.startswith("typing.ClassVar"):
                continue
            if isinstance(b_.value, _ast.Call) and getattr(b_.value.func, "id", getattr(b_.value.func, "attr", None)) == "field":
                return None
            out.append((b_.target.id, b_.value))
    return out


def bind_dataclass(ex, c: ClassInfo, fields, args, kwargs, st, node):
    """field name -> value for C(*args, **kwargs); None when the call does not fit (left to the generic path)"""
    names = [n for n, _ in fields]
    if len(args) > len(names) or any(k not in names for k in kwargs) or "**" in kwargs or any(a.op == "star" for a in args):
        return None
    vals = dict(zip(names, args))
    for k, v in kwargs.items():
        if k in vals:
            return None
        vals[k] = v
    for n, d in fields:
        if n not in vals:
            if d is None:
                return None
            try:
                vals[n] = ex.lift(ex.prog.fold(c.module, d, cls=c))
            except Exception:
                return None
    return vals


def instantiate_model(ex, c: ClassInfo, args, kwargs, st: State, node) -> Optional[Term]:
    hook = getattr(ex, "instantiate_hook", None)
    if hook is not None:
        return hook(ex, c, args, kwargs, st, node)
    dcf = dataclass_fields(c)
    if dcf is not None:
        # @dataclass: the generated __init__ stores its arguments in the fields, in order, then runs __post_init__ if there is one
        vals = bind_dataclass(ex, c, dcf, args, kwargs, st, node)
        if vals is not None:
            r = ex.new_obj(st, "obj", cls=c, label=c.name)
            ex.emit("new", node, st, cls=c, args=tuple(args), kwargs=dict(kwargs), result=r)
            o = ex.obj(st, r)
            for n, _ in dcf:
                o.attrs[n] = vals[n]
            post = c.lookup("__post_init__")
            if post is not None and isinstance(post[1], FuncInfo):
                ex.call_function(post[1], [r], {}, st, node, self_term=r)
            return r
    # class X(typing.NamedTuple): annotated names of the class body are the fields, in order; values are defaults
    if any(b in ("typing.NamedTuple", "NamedTuple") for b in c.external_bases()) and c.lookup("__new__") is None and "**" not in kwargs and not any(a.op == "star" for a in args):
        import ast as _ast

        fields, defaults = [], {}
        for b_ in c.node.body:
            if isinstance(b_, _ast.AnnAssign) and isinstance(b_.target, _ast.Name):
                fields.append(b_.target.id)
                if b_.value is not None:
                    try:
                        defaults[b_.target.id] = ex.lift(ex.prog.fold(c.module, b_.value, cls=c))
                    except Exception:
                        return None
        if fields:
            t_ = make_namedtuple(ex, tuple(fields), defaults, args, kwargs, st, node, c.name)
            ex.__dict__.setdefault("nt_class", {}).setdefault(t_.uid, set()).add(c.qualname)
            return t_
    # class X(namedtuple("X", "a b")): the same, fields from the call
    nf_ = ex.prog.namedtuple_fields_of(c) if hasattr(ex.prog, "namedtuple_fields_of") else None
    if nf_ and c.lookup("__new__") is None and c.lookup("__init__") is None and "**" not in kwargs and not any(a.op == "star" for a in args):
        t_ = make_namedtuple(ex, tuple(nf_), {}, args, kwargs, st, node, c.name)
        ex.__dict__.setdefault("nt_class", {}).setdefault(t_.uid, set()).add(c.qualname)
        return t_
    return None
