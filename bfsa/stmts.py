"""Statement execution of the structural abstract interpreter (methods of symexec.Exec)."""
from __future__ import annotations

import ast
from typing import Any, Dict, List, Optional, Tuple

from .heap import BUILTIN_EXC, FrameInfo, HObj, LoopRec, PathDead, State, Unsupported
from .load import ClassInfo, FuncInfo, NotConst, _dotted
from .terms import C, FALSE, NONE, TRUE, Term, cval, fresh_uid, is_const, mk, show, subst, sym
from .exprs import neg


def _jump_cond(a: State, b: State) -> Term:
    """condition under which state `a` (and not `b`) is the one reached, when the two states were separated by one test: `b` (say the state at a
    `continue`) knows a fact whose negation `a` (the state that ran on) knows.  Otherwise an anonymous condition."""
    fa = {(c.uid, bool(p_)): c for c, p_ in a.facts}
    for c, p_ in b.facts:
        if (c.uid, not bool(p_)) in fa:
            # b: c == p_ ; a: c == not p_
            return neg(c) if p_ else c
    return sym("cont")


class _Jump:
    """collector for break / continue states of the innermost loop"""

    def __init__(self):
        self.breaks: List[State] = []
        self.continues: List[State] = []


def _return_then_raise(stmts: List[ast.stmt]) -> List[ast.stmt]:
    """`if C: ...; return X` followed by straight-line statements that end in `raise` is the guard `if not C: ...; raise E` followed by the
    body of the `if`: neither part falls through, C is evaluated once, and which part runs is decided by C alone"""
    for i, s in enumerate(stmts):
        if isinstance(s, ast.If) and not s.orelse and s.body and isinstance(s.body[-1], ast.Return) and i + 1 < len(stmts):
            tail = stmts[i + 1:]
            if isinstance(tail[-1], ast.Raise) and all(isinstance(x, (ast.Expr, ast.Assign, ast.AnnAssign, ast.AugAssign)) for x in tail[:-1]):
                g = ast.If(test=ast.UnaryOp(op=ast.Not(), operand=s.test), body=list(tail), orelse=[])
                ast.copy_location(g, s)
                ast.copy_location(g.test, s.test)
                return list(stmts[:i]) + [g] + list(s.body)
            break
    return stmts


def block(self, stmts: List[ast.stmt], st: Optional[State]) -> Optional[State]:
    if len(stmts) >= 2 and isinstance(stmts[-1], ast.Raise):
        stmts = _return_then_raise(stmts)
    for s in self.prog.live_body(self.frame.fi.module, stmts) if _needs_prune(stmts) else stmts:
        if st is None:
            return None
        try:
            st = self.stmt(s, st)
        except PathDead:
            return None
    return st


def _needs_prune(stmts) -> bool:
    return any(isinstance(s, (ast.If, ast.Try)) for s in stmts)


def add_fact(self, st: State, cond: Term, pol: bool):
    if not is_const(cond):
        st.facts = st.facts + ((cond, pol),)


def _desugar_list_of_generator(self, s: ast.stmt, st: State):
    """x = list(G(...)) / return list(G(...)) with G a generator function or method that did not exist on the pinned tree:
    tmp = []; for item in G(...): tmp.append(item); x = tmp   (the loop is then fused with G like any other consumer)"""
    v = getattr(s, "value", None)
    if not (isinstance(v, ast.Call) and isinstance(v.func, ast.Name) and v.func.id in ("list",) and len(v.args) == 1 and not v.keywords and isinstance(v.args[0], ast.Call)):
        return None
    if not isinstance(s, (ast.Assign, ast.Return, ast.AnnAssign)):
        return None
    inner = v.args[0]
    if not isinstance(inner.func, (ast.Name, ast.Attribute)):
        return None
    try:
        f = self.ev(inner.func, st)
    except Unsupported:
        return None
    if f.op not in ("func", "bound"):
        return None
    from .symexec import _is_new_function

    fi = self.fis.get(f.args[1])
    if fi is None or not fi.is_generator or not _is_new_function(fi) or fi in [fr.fi for fr in self.frames]:
        return None
    n = fresh_uid()
    tmp, item = "__lst%d" % n, "__item%d" % n
    init = ast.Assign(targets=[ast.Name(id=tmp, ctx=ast.Store())], value=ast.List(elts=[], ctx=ast.Load()))
    app = ast.Expr(value=ast.Call(func=ast.Attribute(value=ast.Name(id=tmp, ctx=ast.Load()), attr="append", ctx=ast.Load()), args=[ast.Name(id=item, ctx=ast.Load())], keywords=[]))
    loop = ast.For(target=ast.Name(id=item, ctx=ast.Store()), iter=inner, body=[app], orelse=[])
    if _fuse_new_generator(self, loop, st) is None:
        return None
    import copy as _copy

    last = _copy.copy(s)
    last.value = ast.Name(id=tmp, ctx=ast.Load())
    out = [init, loop, last]
    for x in out:
        for m_ in ast.walk(x):
            if getattr(m_, "lineno", None) is None:
                ast.copy_location(m_, s)
        ast.fix_missing_locations(x)
    return out


def stmt(self, s: ast.stmt, st: State) -> Optional[State]:
    t = type(s)
    if t in (ast.Assign, ast.Return, ast.AnnAssign):
        dl = _desugar_list_of_generator(self, s, st)
        if dl is not None:
            return self.block(dl, st)
    if t is ast.Expr:
        if isinstance(s.value, ast.Constant):
            return st
        self.ev(s.value, st)
        return st
    if t is ast.Assign:
        v = self.ev(s.value, st)
        for tgt in s.targets:
            self.assign_to(tgt, v, st, s)
        return st
    if t is ast.AnnAssign:
        if s.value is not None:
            self.assign_to(s.target, self.ev(s.value, st), st, s)
        return st
    if t is ast.AugAssign:
        tgt = s.target
        if isinstance(tgt, ast.Name):
            cur = self.ev(ast.copy_location(ast.Name(id=tgt.id, ctx=ast.Load()), tgt), st)
        elif isinstance(tgt, ast.Attribute):
            base = self.ev(tgt.value, st)
            cur = self.get_attr(base, self.mangle(tgt.attr), st, tgt)
        elif isinstance(tgt, ast.Subscript):
            base = self.ev(tgt.value, st)
            if isinstance(tgt.slice, ast.Slice):
                raise Unsupported("augmented slice assignment at %d" % s.lineno)
            idx = self.ev(tgt.slice, st)
            cur = self.do_subscript(base, idx, None, st, tgt)
        else:
            raise Unsupported("augassign target")
        rhs = self.ev(s.value, st)
        co = self.obj(st, cur)
        opn = type(s.op).__name__
        if opn == "Add" and co is not None and co.kind in ("list", "bytearray"):
            # in-place extend
            items = self.iter_items(rhs, st)
            if co.kind == "bytearray" and items is not None and not is_const(rhs) and rhs.op in ("bin", "call"):
                # ba += n.to_bytes(4, "big") [+ ...]: kept as one step of the construction history (the layout domain reads the integer field), not as its single bytes
                from .exprs import _bytes_of_ints

                if _bytes_of_ints(rhs) is not None:
                    items = None
            if co.exact and items is not None:
                co.items.extend(items)
            else:
                if co.exact:
                    co.items = [(x, co.created_ctx, "init") for x in co.items]
                    co.exact = False
                co.items.append((rhs, st.ctx, "extend"))
            co.version += 1
            self.emit("mutate", s, st, obj=cur, how="extend", value=rhs)
            new = cur
        else:
            new = self.binop(opn, cur, rhs, st, s)
        if isinstance(tgt, ast.Name):
            self.assign_to(tgt, new, st, s)
        elif isinstance(tgt, ast.Attribute):
            self.store_attr(base, self.mangle(tgt.attr), new, st, s)
        else:
            self.store_subscript(base, idx, new, st, s)
        return st
    if t is ast.If:
        return self.st_if(s, st)
    if t is ast.For:
        return self.st_for(s, st)
    if t is ast.While:
        return self.st_while(s, st)
    if t is ast.Try:
        return self.st_try(s, st)
    if t is ast.With:
        return self.st_with(s, st)
    if t is getattr(ast, "Match", None):
        return self.stmt(_desugar_match(s), st)
    if t is ast.Raise:
        return self.st_raise(s, st)
    if t is ast.Return:
        return self.st_return(s, st)
    if t is ast.Pass:
        return st
    if t is ast.Break:
        self.emit("break", s, st)
        self._jumps[-1].breaks.append(st)
        return None
    if t is ast.Continue:
        self.emit("continue", s, st)
        self._jumps[-1].continues.append(st)
        return None
    if t in (ast.FunctionDef, ast.AsyncFunctionDef):
        fi = self.prog.func_by_node.get(id(s))
        if fi is None:
            raise Unsupported("nested def not indexed: %s" % s.name)
        self.fis[id(fi.node)] = fi
        self.frames[-1].made_closure = True
        st.envs[-1][s.name] = mk("closure", fi.qualname, id(fi.node), len(self.frames) - 1, self.frames[-1].uid)
        return st
    if t is ast.ClassDef:
        st.envs[-1][s.name] = sym("localclass_" + s.name)
        return st
    if t is ast.Assert:
        c = self.truth(self.ev(s.test, st), st)
        if is_const(c):
            if not cval(c):
                self.emit("raise", s, st, exc="AssertionError", exc_term=mk("builtin", "AssertionError"), args=(), guard=None, implicit=False)
                return None
            return st
        g = self.emit("guard", s, st, cond=c, pol=False, term="raise", exc="AssertionError", is_assert=True)
        sub = st.ctx
        st.ctx = st.ctx + (("if", c, False, fresh_uid()),)
        self.emit("raise", s, st, exc="AssertionError", exc_term=mk("builtin", "AssertionError"), args=(), guard=g.uid, implicit=False)
        st.ctx = sub
        self.add_fact(st, c, True)
        return st
    if t is ast.Delete:
        for tgt in s.targets:
            if isinstance(tgt, ast.Subscript):
                base = self.ev(tgt.value, st)
                if isinstance(tgt.slice, ast.Slice):
                    idx = mk("sliceobj", *(self.ev(x, st) if x else NONE for x in (tgt.slice.lower, tgt.slice.upper, tgt.slice.step)))
                else:
                    idx = self.ev(tgt.slice, st)
                o = self.obj(st, base)
                self.emit("delitem", s, st, base=base, index=idx)
                if o is not None:
                    if o.kind == "dict" and o.exact and is_const(idx) and cval(idx) in o.kv:
                        del o.kv[cval(idx)]
                    elif o.kind == "list" and o.exact and is_const(idx) and isinstance(cval(idx), int) and -len(o.items) <= cval(idx) < len(o.items):
                        del o.items[cval(idx)]
                    elif o.kind in ("list", "bytearray") and idx.op == "sliceobj" and all(x is NONE or is_const(x) for x in idx.args[:3]) and (o.exact or all(x is NONE for x in idx.args[:3])):
                        if all(x is NONE for x in idx.args[:3]):
                            o.items, o.exact = [], True  # del x[:] empties the list whatever it held
                        else:
                            del o.items[slice(*[None if x is NONE else cval(x) for x in idx.args[:3]])]
                    else:
                        _weaken(o)
                        if o.kind == "dict" and o.sure is not None:
                            if is_const(idx):
                                o.sure.discard(cval(idx)) if isinstance(cval(idx), (int, str, bytes, tuple)) else None
                            else:
                                o.sure = set()
                    o.version += 1
            elif isinstance(tgt, ast.Name):
                st.envs[-1].pop(tgt.id, None)
            elif isinstance(tgt, ast.Attribute):
                base = self.ev(tgt.value, st)
                o = self.obj(st, base)
                self.emit("delattr", s, st, base=base, name=tgt.attr)
                if o is not None:
                    o.attrs.pop(self.mangle(tgt.attr), None)
        return st
    if t is ast.Global:
        self.frame.globals_decl = set(self.frame.globals_decl) | set(s.names)
        return st
    if t is ast.Nonlocal:
        self.frame.nonlocals = getattr(self.frame, "nonlocals", set()) | set(s.names)
        return st
    if t in (ast.Import, ast.ImportFrom):
        m = self.frame.fi.module
        if t is ast.Import:
            for a in s.names:
                nm = a.asname or a.name.split(".")[0]
                tgt = a.name if a.asname else a.name.split(".")[0]
                st.envs[-1][nm] = mk("module", tgt) if tgt in self.prog.modules else mk("ext", tgt)
        else:
            modname = self.prog.resolve_relative(m, s.level, s.module)
            for a in s.names:
                nm = a.asname or a.name
                if modname in self.prog.modules:
                    st.envs[-1][nm] = self.lookup_global(self.prog.modules[modname], a.name, st, s)
                else:
                    st.envs[-1][nm] = mk("ext", modname + "." + a.name)
        return st
    raise Unsupported("statement %s at line %d" % (t.__name__, s.lineno))


def _weaken(o: HObj):
    if o.kind == "dict" and o.exact:
        o.writes = [(k.term if hasattr(k, 'term') else C(k), v, o.created_ctx) for k, v in o.kv.items()]
        o.sure = set(o.kv.keys())
        o.kv = {}
        o.exact = False
    elif o.kind in ("list", "bytearray", "set") and o.exact:
        o.items = [(x, o.created_ctx, "init") for x in o.items]
        o.exact = False


# ---------------------------------------------------------------------- assignment
def assign_to(self, tgt: ast.AST, v: Term, st: State, node=None):
    t = type(tgt)
    if t is ast.Name:
        fr = self.frame
        if tgt.id in fr.globals_decl:
            key = (fr.fi.module.name, tgt.id)
            self.emit("gstore", node or tgt, st, module=fr.fi.module.name, name=tgt.id, value=v)
            self.global_store[key] = v
            return
        if tgt.id in getattr(fr, "nonlocals", ()):
            cf = fr.closure_frame
            while cf is not None:
                if tgt.id in st.envs[cf]:
                    st.envs[cf][tgt.id] = v
                    return
                cf = self.frames[cf].closure_frame
        st.envs[-1][tgt.id] = v
        return
    if t in (ast.Tuple, ast.List):
        star = [i for i, x in enumerate(tgt.elts) if isinstance(x, ast.Starred)]
        if star:
            items = self.iter_items(v, st)
            if items is None:
                # a, *rest, z = <iterable whose items are not known one by one>: a and z are its first / last items, rest a list of items of it
                # (too few items is a ValueError: recorded as an unpack event with the minimum count)
                k_ = star[0]
                n_after = len(tgt.elts) - k_ - 1
                self.emit("unpack", node or tgt, st, value=v, n=len(tgt.elts) - 1, known_len=None, at_least=True)
                for i_, x_ in enumerate(tgt.elts):
                    if i_ < k_:
                        self.assign_to(x_, mk("sub", v, C(i_)), st, node)
                    elif i_ == k_:
                        r_ = self.new_obj(st, "list")
                        ro_ = self.obj(st, r_)
                        ro_.exact = False
                        ro_.items = [(mk("elem", v, 0), st.ctx, "from")]
                        ro_.base = v
                        self.assign_to(x_.value, r_, st, node)
                    else:
                        self.assign_to(x_, mk("sub", v, C(i_ - len(tgt.elts))), st, node)
                return
            i = star[0]
            after = len(tgt.elts) - i - 1
            for te, x in zip(tgt.elts[:i], items[:i]):
                self.assign_to(te, x, st, node)
            self.assign_to(tgt.elts[i].value, self.new_list(st, items[i:len(items) - after]), st, node)
            for te, x in zip(tgt.elts[i + 1:], items[len(items) - after:]):
                self.assign_to(te, x, st, node)
            return
        parts = self.unpack_to(v, len(tgt.elts), st, node or tgt)
        for te, x in zip(tgt.elts, parts):
            self.assign_to(te, x, st, node)
        return
    if t is ast.Attribute:
        base = self.ev(tgt.value, st)
        self.store_attr(base, self.mangle(tgt.attr), v, st, node or tgt)
        return
    if t is ast.Subscript:
        base = self.ev(tgt.value, st)
        if isinstance(tgt.slice, ast.Slice):
            lo = self.ev(tgt.slice.lower, st) if tgt.slice.lower else NONE
            hi = self.ev(tgt.slice.upper, st) if tgt.slice.upper else NONE
            stp = self.ev(tgt.slice.step, st) if tgt.slice.step else NONE
            self.store_slice(base, lo, hi, stp, v, st, node or tgt)
            return
        idx = self.ev(tgt.slice, st)
        if idx.op == "sliceobj":
            self.store_slice(base, idx.args[0], idx.args[1], idx.args[2], v, st, node or tgt)
            return
        self.store_subscript(base, idx, v, st, node or tgt)
        return
    if t is ast.Starred:
        self.assign_to(tgt.value, v, st, node)
        return
    raise Unsupported("assignment target %s" % t.__name__)


def store_attr(self, base: Term, name: str, v: Term, st: State, node):
    o = self.obj(st, base)
    self.emit("setattr", node, st, base=base, name=name, value=v, origin=(o.origin if o is not None else None), cls=(o.cls if o is not None else None))
    if o is not None and o.kind == "obj":
        if o.cls is not None:
            r = o.cls.lookup(name)
            if r is not None and isinstance(r[1], FuncInfo) and r[1].kind == "property":
                # property setter, if any
                for c in o.cls.mro():
                    if isinstance(c, ClassInfo):
                        for n2 in c.node.body:
                            if isinstance(n2, ast.FunctionDef) and n2.name == name and any(_dotted(d) == name + ".setter" for d in n2.decorator_list):
                                fi = self.prog.func_by_node.get(id(n2))
                                if fi is not None:
                                    self.call_function(fi, [base, v], {}, st, node, self_term=base)
                                    return
        o.attrs[name] = v
        o.version += 1
        return
    if base.op == "class":
        self.emit("clsstore", node, st, cls=base.args[0], name=name, value=v)


def store_subscript(self, base: Term, idx: Term, v: Term, st: State, node):
    o = self.obj(st, base)
    self.emit("setitem", node, st, base=base, index=idx, value=v)
    if o is None:
        return
    if o.kind == "dict":
        if o.exact and is_const(idx):
            try:
                o.kv[cval(idx)] = v
                o.version += 1
                return
            except TypeError:
                pass
        if o.exact and idx.op == "tuple" and all(is_const(x) for x in idx.args[0]):
            o.kv[tuple(cval(x) for x in idx.args[0])] = v
            o.version += 1
            return
        if o.exact and self.sym_bytes and not is_const(idx) and idx.op not in ("phi", "ref"):
            from .heap import TK

            o.kv[TK(idx)] = v
            o.version += 1
            return
        _weaken(o)
        o.writes.append((idx, v, st.ctx))
        if is_const(idx) and o.sure is not None and not any(f[0] == "loop" and f not in o.created_ctx for f in st.ctx):
            try:
                o.sure.add(cval(idx))
            except TypeError:
                pass
        o.version += 1
        return
    if o.kind in ("list", "bytearray"):
        if o.exact and is_const(idx) and isinstance(cval(idx), int) and -len(o.items) <= cval(idx) < len(o.items):
            o.items[cval(idx)] = v
            o.version += 1
            return
        _weaken(o)
        o.items.append((v, st.ctx, ("setitem", idx)))
        o.version += 1
        return
    if o.kind == "obj" and o.cls is not None:
        m = o.cls.lookup("__setitem__")
        if m and isinstance(m[1], FuncInfo):
            self.call_function(m[1], [base, idx, v], {}, st, node, self_term=base)


def store_slice(self, base, lo, hi, stp, v, st: State, node):
    o = self.obj(st, base)
    self.emit("setslice", node, st, base=base, lo=lo, hi=hi, step=stp, value=v)
    if o is None:
        return
    if o.kind in ("list", "bytearray"):
        items = self.iter_items(v, st)
        if o.exact and all(is_const(x) for x in (lo, hi, stp)) and items is not None:
            l = o.items
            l[cval(lo):cval(hi):cval(stp)] = items
            o.version += 1
            return
        _weaken(o)
        o.items.append((v, st.ctx, ("setslice", lo, hi)))
        o.version += 1


# ---------------------------------------------------------------------- control flow
def _terminates_kind(self, ev_start: int) -> Tuple[str, Optional[str]]:
    """classify how a dead arm ended, from the events it emitted"""
    for e in reversed(self.trace[ev_start:]):
        if e.kind == "raise":
            return "raise", e.d.get("exc")
        if e.kind == "return":
            return "return", None
        if e.kind == "break":
            return "break", None
        if e.kind == "continue":
            return "continue", None
    return "dead", None


def st_if(self, s: ast.If, st: State) -> Optional[State]:
    c = self.truth(self.ev(s.test, st), st)
    if is_const(c):
        return self.block(s.body if cval(c) else s.orelse, st)
    # decided by path facts?
    for (f, pol) in st.facts:
        if f is c:
            return self.block(s.body if pol else s.orelse, st)
    gev = self.emit("branch", s, st, cond=c)
    sa = st.fork()
    fa = ("if", c, True, fresh_uid())
    sa.ctx = st.ctx + (fa,)
    self.add_fact(sa, c, True)
    n0 = len(self.trace)
    ra = self.block(s.body, sa)
    n1 = len(self.trace)
    sb = st
    fb = ("if", c, False, fresh_uid())
    sb.ctx = st.ctx + (fb,)
    base_ctx = sb.ctx[:-1]
    base_facts = st.facts
    self.add_fact(sb, c, False)
    rb = self.block(s.orelse, sb) if s.orelse else sb
    n2 = len(self.trace)
    if ra is None and rb is None:
        ka = _terminates_kind(self, n0)
        gev.kind = "guard2"
        gev.d.update(term_true=_term_of(self, n0, n1), term_false=_term_of(self, n1, n2))
        return None
    if ra is None:
        kind, exc = _term_of(self, n0, n1)
        gev.kind = "guard"
        gev.d.update(pol=True, term=kind, exc=exc, arm=(n0, n1))
        rb.ctx = base_ctx
        return rb
    if rb is None:
        kind, exc = _term_of(self, n1, n2)
        gev.kind = "guard"
        gev.d.update(pol=False, term=kind, exc=exc, arm=(n1, n2))
        ra.ctx = base_ctx
        return ra
    ra.ctx = base_ctx
    rb.ctx = base_ctx
    m = self.merge(c, ra, rb)
    m.ctx = base_ctx
    return m


def _term_of(self, a: int, b: int):
    """(kind, exception name) of the terminator(s) of a dead arm spanning trace[a:b]"""
    kinds = []
    for e in self.trace[a:b]:
        if e.kind == "raise":
            kinds.append(("raise", e.d.get("exc")))
        elif e.kind in ("return", "break", "continue"):
            kinds.append((e.kind, None))
    if not kinds:
        return ("dead", None)
    # last terminator characterises a simple arm; for mixed arms report the set
    ks = {k for k, _ in kinds}
    if len(ks) == 1:
        excs = sorted({x for _, x in kinds if x})
        return (kinds[-1][0], "|".join(excs) if excs else None)
    return ("mixed", "|".join(sorted({(x or k) for k, x in kinds})))


def st_raise(self, s: ast.Raise, st: State) -> Optional[State]:
    fr = self.frame
    if s.exc is None:
        caught = fr.handler_stack[-1][1] if fr.handler_stack else ("?",)
        self.emit("raise", s, st, exc="|".join(caught) or "?", exc_term=None, args=(), reraise=True, implicit=False)
        return None
    e = s.exc
    args: Tuple[Term, ...] = ()
    if isinstance(e, ast.Call):
        ct = self.ev(e.func, st)
        a, kw = self.ev_args(e, st)
        args = tuple(a)
    else:
        ct = self.ev(e, st)
        kw = {}
    name = self.exc_names(ct, st)
    if ct.op == "class" and not any(x.op == "star" for x in args) and "**" not in kw:
        # the exception object is constructed first: a constructor of the repo's own exception classes that cannot take these arguments fails with
        # TypeError, and that is what is raised (`raise Err()` with `def __init__(self, message)`)
        c_ = self.prog.classes.get(ct.args[0])
        init = c_.lookup("__init__") if c_ is not None else None
        if init is not None and isinstance(init[1], FuncInfo):
            a_ = init[1].node.args
            pos = [x.arg for x in a_.posonlyargs + a_.args][1:]
            required = pos[:len(pos) - len(a_.defaults)] if len(a_.defaults) <= len(pos) else []
            missing = [nm for i, nm in enumerate(required) if i >= len(args) and nm not in kw]
            missing += [x.arg for x, d_ in zip(a_.kwonlyargs, a_.kw_defaults) if d_ is None and x.arg not in kw]
            too_many = len(args) > len(pos) and not a_.vararg
            unknown = [k for k in kw if k not in pos and k not in [x.arg for x in a_.kwonlyargs]] if not a_.kwarg else []
            if missing or too_many or unknown:
                self.emit("raise", s, st, exc="TypeError", exc_term=mk("builtin", "TypeError"), args=(), reraise=False, implicit=True,
                          construct="%s(%s): %s" % (c_.name, ", ".join(["..."] * len(args)), ("missing " + ", ".join(missing)) if missing else "too many arguments" if too_many else "unexpected " + ", ".join(unknown)))
                return None
    self.emit("raise", s, st, exc=name, exc_term=ct, args=args, reraise=False, implicit=False, cause=(s.cause is not None))
    return None


def exc_names(self, ct: Term, st: State) -> str:
    if ct.op == "class":
        return ct.args[0]
    if ct.op == "builtin":
        return ct.args[0]
    if ct.op == "ext":
        return ct.args[0]
    if ct.op == "ref":
        o = self.obj(st, ct)
        if o is not None and o.cls is not None:
            return o.cls.qualname
    if ct.op == "attr" and ct.args[1] == "exception":
        return "<self.exception>"
    if ct.op == "phi":
        return self.exc_names(ct.args[1], st) + "|" + self.exc_names(ct.args[2], st)
    return "<dynamic:%s>" % show(ct, 3)


def st_return(self, s: ast.Return, st: State) -> Optional[State]:
    v = self.ev(s.value, st) if s.value is not None else NONE
    self.emit("return", s, st, value=v, implicit=False)
    self.frame.returns.append((v, st))
    return None


def _is_suppress(self, item: ast.withitem, st: State):
    """exception classes if the context manager is contextlib.suppress(E1, E2, ...) (not bound with `as`), else None"""
    ce = item.context_expr
    if item.optional_vars is not None or not isinstance(ce, ast.Call) or ce.keywords or not ce.args:
        return None
    f = self.ev(ce.func, st)
    if f.op == "ext" and f.args[0] in ("contextlib.suppress", "suppress"):
        return list(ce.args)
    return None


def _desugar_match(s):
    """match SUBJECT: case P1: ... case P2: ...   as an if / elif chain, for value, singleton, or-, capture and wildcard patterns and fixed-length sequence
    patterns made of those (class, mapping and star patterns are outside the interpreted fragment)"""
    subj = s.subject
    pre = []
    if not isinstance(subj, (ast.Name, ast.Attribute, ast.Constant, ast.Subscript, ast.Tuple)):
        # a computed subject is evaluated once, before the first case
        tmp = ast.Name(id="__match_subject_%d" % s.lineno, ctx=ast.Store())
        pre = [ast.Assign(targets=[tmp], value=subj)]
        subj = ast.Name(id=tmp.id, ctx=ast.Load())

    def test_and_binds(pat, value):
        if isinstance(pat, ast.MatchValue):
            return ast.Compare(left=value, ops=[ast.Eq()], comparators=[pat.value]), []
        if isinstance(pat, ast.MatchSingleton):
            return ast.Compare(left=value, ops=[ast.Is()], comparators=[ast.Constant(value=pat.value)]), []
        if isinstance(pat, ast.MatchOr):
            tests = []
            for p_ in pat.patterns:
                t_, b_ = test_and_binds(p_, value)
                if b_ or t_ is None:
                    raise Unsupported("or-pattern with captures / wildcard at line %d" % s.lineno)
                tests.append(t_)
            return ast.BoolOp(op=ast.Or(), values=tests), []
        if isinstance(pat, ast.MatchClass) and not pat.patterns and not pat.kwd_patterns:
            # case Cls(): is isinstance(subject, Cls)
            return ast.Call(func=ast.Name(id="isinstance", ctx=ast.Load()), args=[value, pat.cls], keywords=[]), []
        if isinstance(pat, ast.MatchAs):
            if pat.pattern is None:
                return None, ([(pat.name, value)] if pat.name else [])
            t_, b_ = test_and_binds(pat.pattern, value)
            return t_, b_ + ([(pat.name, value)] if pat.name else [])
        if isinstance(pat, ast.MatchSequence) and not any(isinstance(p_, ast.MatchStar) for p_ in pat.patterns) and isinstance(value, ast.Tuple) and len(value.elts) == len(pat.patterns):
            tests, binds = [], []
            for p_, v_ in zip(pat.patterns, value.elts):
                t_, b_ = test_and_binds(p_, v_)
                if t_ is not None:
                    tests.append(t_)
                binds += b_
            return (ast.BoolOp(op=ast.And(), values=tests) if len(tests) > 1 else tests[0] if tests else None), binds
        raise Unsupported("match pattern %s at line %d" % (type(pat).__name__, s.lineno))

    chain = None
    for case in reversed(s.cases):
        test, binds = test_and_binds(case.pattern, subj)
        body = [ast.Assign(targets=[ast.Name(id=n_, ctx=ast.Store())], value=v_) for n_, v_ in binds] + list(case.body)
        if case.guard is not None:
            if binds:
                raise Unsupported("guarded case with captures at line %d" % s.lineno)
            test = case.guard if test is None else ast.BoolOp(op=ast.And(), values=[test, case.guard])
        if test is None:
            if chain is not None and case is not s.cases[-1]:
                raise Unsupported("irrefutable case before the last one at line %d" % s.lineno)
            chain = ast.If(test=ast.Constant(value=True), body=body, orelse=[])
        else:
            chain = ast.If(test=test, body=body, orelse=[chain] if chain is not None else [])
    if pre:
        chain = ast.If(test=ast.Constant(value=True), body=pre + [chain], orelse=[])
    for n_ in ast.walk(chain):
        if not hasattr(n_, "lineno") or getattr(n_, "lineno", None) is None:
            ast.copy_location(n_, s)
    ast.fix_missing_locations(chain)
    return chain


def st_with(self, s: ast.With, st: State) -> Optional[State]:
    if len(s.items) == 1:
        sup = _is_suppress(self, s.items[0], st)
        if sup is not None:
            # with suppress(E...): BODY   is   try: BODY / except (E...): pass
            h = ast.ExceptHandler(type=(sup[0] if len(sup) == 1 else ast.Tuple(elts=sup, ctx=ast.Load())), name=None, body=[ast.Pass()])
            t = ast.Try(body=s.body, handlers=[h], orelse=[], finalbody=[])
            for n_ in (h, t, h.body[0]) + ((h.type,) if isinstance(h.type, ast.Tuple) else ()):
                ast.copy_location(n_, s)
            return self.st_try(t, st)
    uid = fresh_uid()
    mgrs = []
    for item in s.items:
        m = self.ev(item.context_expr, st)
        mgrs.append(m)
        self.emit("with_enter", s, st, mgr=m, wid=uid)
        if item.optional_vars is not None:
            mo_ = self.obj(st, m)
            # a write-only BytesIO enters as itself; so does an object of a repository class that inherits __enter__ from an io stream class
            same = mo_ is not None and getattr(mo_, "is_stream", False)
            if mo_ is not None and mo_.kind == "obj" and mo_.cls is not None and mo_.origin is None and not mo_.cls.lookup("__enter__"):
                ext_ = [x for x in mo_.cls.external_bases() if x != "object"]
                same = bool(ext_) and all(x.split(".")[-1] in ("BytesIO", "StringIO", "IOBase", "RawIOBase", "BufferedIOBase", "TextIOBase") for x in ext_)
            self.assign_to(item.optional_vars, m if same else mk("entered", m, uid), st, s)
    saved = st.ctx
    st.ctx = st.ctx + (("with", uid),)
    r = self.block(s.body, st)
    if r is not None:
        r.ctx = saved
        for m in mgrs:
            self.emit("with_exit", s, r, mgr=m, wid=uid)
    return r


def st_try(self, s: ast.Try, st: State) -> Optional[State]:
    fr = self.frame
    tid = fresh_uid()
    entry = st.fork() if s.handlers else None
    base_ctx = st.ctx
    classes_per_handler = []
    for h in s.handlers:
        if h.type is None:
            classes_per_handler.append(("BaseException",))
        elif isinstance(h.type, ast.Tuple):
            classes_per_handler.append(tuple(self.exc_names(self.ev(x, st), st) for x in h.type.elts))
        else:
            classes_per_handler.append((self.exc_names(self.ev(h.type, st), st),))
    self.emit("try", s, st, tid=tid, handlers=tuple(classes_per_handler), has_finally=bool(s.finalbody))
    if s.handlers:
        st.ctx = base_ctx + (("try", tid, tuple(classes_per_handler)),)
    elif s.finalbody:
        st.ctx = base_ctx + (("tryfinally", tid),)
    n0 = len(self.trace)
    if self.sym_bytes and s.handlers:
        return _precise_try(self, s, st, tid, base_ctx, classes_per_handler)
    r = self.block(s.body, st)
    if r is not None and s.orelse:
        r.ctx = base_ctx + (("tryelse", tid),)
        r = self.block(s.orelse, r)
    if r is not None:
        r.ctx = base_ctx
    outs: List[State] = [r] if r is not None else []
    # handlers: state = entry state with everything the try body may have assigned havocked
    if s.handlers:
        assigned = _assigned_names(s.body)
        for i, h in enumerate(s.handlers):
            hs = entry.fork()
            for nm in assigned:
                cur = hs.envs[-1].get(nm)
                hs.envs[-1][nm] = mk("phi", mk("sym", "exc", tid), cur, mk("sym", "intry_" + nm, tid)) if cur is not None else mk("sym", "intry_" + nm, tid)
            # heap objects possibly mutated in the try body: take the body's final version when available
            if r is not None:
                for oid, ob in r.heap.items():
                    oa = hs.heap.get(oid)
                    if oa is not None and oa.version != ob.version:
                        hs.heap[oid] = self._merge_obj(mk("sym", "exc", tid), oa, ob)
            hs.ctx = base_ctx + (("except", tid, i, classes_per_handler[i]),)
            if h.name:
                hs.envs[-1][h.name] = mk("caught", tid, i)
            fr.handler_stack.append((tid, classes_per_handler[i]))
            n1 = len(self.trace)
            try:
                hr = self.block(h.body, hs)
            finally:
                fr.handler_stack.pop()
            self.emit("handler_end", h, hr if hr is not None else hs, tid=tid, idx=i, classes=classes_per_handler[i], falls_through=hr is not None, span=(n1, len(self.trace)))
            if hr is not None:
                hr.ctx = base_ctx
                outs.append(hr)
    if not outs:
        if s.finalbody:
            # finally still runs on the exceptional paths: record its events in a dead state
            ds = (entry or st).fork()
            ds.ctx = base_ctx + (("finally", tid),)
            self.block(s.finalbody, ds)
        return None
    res = outs[0]
    for o in outs[1:]:
        res = self.merge(mk("sym", "exc", tid), res, o)
    res.ctx = base_ctx
    if s.finalbody:
        res.ctx = base_ctx + (("finally", tid),)
        res = self.block(s.finalbody, res)
        if res is not None:
            res.ctx = base_ctx
    return res


def _precise_try(self, s: ast.Try, st: State, tid, base_ctx, classes_per_handler) -> Optional[State]:
    """try/except with concrete control: the body either completes (handlers are skipped) or ends with one definite
    exception, which is matched against the handlers in order; the handler continues from the state at the raise"""
    from .exc import Hier

    depth = len(st.envs)
    nframes = len(self.frames)
    self._dead = None
    nret = len(self.frame.returns)
    r = self.block(s.body, st)
    if r is not None:
        if s.orelse:
            r.ctx = base_ctx + (("tryelse", tid),)
            r = self.block(s.orelse, r)
    elif len(self.frame.returns) > nret or self._dead is None:
        r = None  # the body returned / broke out: not an exception
    else:
        ds, exc = self._dead
        self._dead = None
        hier = Hier(self.prog)
        exc = str(exc or "Exception")
        names = exc.split("|")
        hit = None
        for i, classes in enumerate(classes_per_handler):
            flat = [c for cs in classes for c in str(cs).split("|")]
            if all(any(hier.is_sub(nm, c) or c in ("BaseException",) for c in flat) for nm in names):
                hit = i
                break
            if any(any(hier.is_sub(nm, c) for c in flat) for nm in names):
                raise Unsupported("try at line %d: exception %s matches a handler only partly" % (s.lineno, exc))
        if hit is None:
            self._dead = (ds, exc)  # propagates
            r = None
        else:
            h = s.handlers[hit]
            hs = ds
            del hs.envs[depth:]
            del self.frames[nframes:]
            hs.ctx = base_ctx + (("except", tid, hit, classes_per_handler[hit]),)
            if h.name:
                hs.envs[-1][h.name] = mk("caught", tid, hit)
            self.frame.handler_stack.append((tid, classes_per_handler[hit]))
            try:
                r = self.block(h.body, hs)
            finally:
                self.frame.handler_stack.pop()
    if r is not None:
        r.ctx = base_ctx
    if s.finalbody:
        fs = r
        if fs is None and self._dead is not None:
            fs = self._dead[0]
            del fs.envs[depth:]
        if fs is not None:
            fs.ctx = base_ctx + (("finally", tid),)
            out = self.block(s.finalbody, fs)
            if r is not None:
                r = out
                if r is not None:
                    r.ctx = base_ctx
    return r


def _augadd_only_names(stmts) -> set:
    """names that are bound in `stmts` only by `name += expr`"""
    aug, other = set(), set()
    for st_ in stmts:
        for n in ast.walk(st_):
            if isinstance(n, ast.AugAssign) and isinstance(n.target, ast.Name) and isinstance(n.op, ast.Add):
                aug.add(n.target.id)
            elif isinstance(n, ast.Name) and isinstance(n.ctx, (ast.Store, ast.Del)):
                other.add(n.id)
    # the target of an AugAssign is itself a Name in Store context: count how often each name is stored
    stores = {}
    augs = {}
    for st_ in stmts:
        for n in ast.walk(st_):
            if isinstance(n, ast.Name) and isinstance(n.ctx, (ast.Store, ast.Del)):
                stores[n.id] = stores.get(n.id, 0) + 1
            if isinstance(n, ast.AugAssign) and isinstance(n.target, ast.Name) and isinstance(n.op, ast.Add):
                augs[n.target.id] = augs.get(n.target.id, 0) + 1
    return {nm for nm in aug if stores.get(nm, 0) == augs.get(nm, 0)}


def _assigned_names(stmts) -> List[str]:
    out = []

    def tgt(t):
        if isinstance(t, ast.Name):
            if t.id not in out:
                out.append(t.id)
        elif isinstance(t, (ast.Tuple, ast.List)):
            for x in t.elts:
                tgt(x)
        elif isinstance(t, ast.Starred):
            tgt(t.value)

    def walk(n):
        if isinstance(n, (ast.FunctionDef, ast.AsyncFunctionDef, ast.Lambda, ast.ClassDef)):
            if isinstance(n, (ast.FunctionDef, ast.ClassDef)) and n.name not in out:
                out.append(n.name)
            return
        if isinstance(n, ast.Assign):
            for t in n.targets:
                tgt(t)
        elif isinstance(n, (ast.AugAssign, ast.AnnAssign)):
            tgt(n.target)
        elif isinstance(n, (ast.For, ast.comprehension)):
            if isinstance(n, ast.For):
                tgt(n.target)
        elif isinstance(n, ast.With):
            for it in n.items:
                if it.optional_vars is not None:
                    tgt(it.optional_vars)
        elif isinstance(n, ast.NamedExpr):
            tgt(n.target)
        elif isinstance(n, ast.ExceptHandler) and n.name:
            if n.name not in out:
                out.append(n.name)
        elif isinstance(n, (ast.Import, ast.ImportFrom)):
            for a in n.names:
                nm = (a.asname or a.name).split(".")[0]
                if nm not in out:
                    out.append(nm)
        if isinstance(n, (ast.ListComp, ast.SetComp, ast.DictComp, ast.GeneratorExp)):
            return
        for c in ast.iter_child_nodes(n):
            walk(c)

    for s in stmts:
        walk(s)
    return out


_MUTATORS = {"append", "extend", "insert", "pop", "remove", "sort", "reverse", "clear", "update", "setdefault", "popitem", "add", "discard"}


def _mutated_names(stmts) -> List[str]:
    """names whose container value is mutated in place inside a loop body (also through nested defs called there)"""
    out: List[str] = []

    def note(n):
        if isinstance(n, ast.Name) and n.id not in out:
            out.append(n.id)

    for s in stmts:
        for n in ast.walk(s):
            if isinstance(n, (ast.Assign, ast.AugAssign, ast.AnnAssign, ast.Delete)):
                tg = n.targets if isinstance(n, (ast.Assign, ast.Delete)) else [n.target]
                for t in tg:
                    for x in (t.elts if isinstance(t, (ast.Tuple, ast.List)) else [t]):
                        if isinstance(x, ast.Subscript):
                            note(x.value)
            elif isinstance(n, ast.Call) and isinstance(n.func, ast.Attribute) and n.func.attr in _MUTATORS:
                note(n.func.value)
    return out


def _attr_store_targets(stmts) -> List[Tuple[str, str]]:
    """(base name, attr) of attribute stores in a loop body (havocked at loop entry)"""
    out = []
    for s in stmts:
        for n in ast.walk(s):
            tg = []
            if isinstance(n, ast.Assign):
                tg = n.targets
            elif isinstance(n, (ast.AugAssign, ast.AnnAssign)):
                tg = [n.target]
            for t in tg:
                for x in (t.elts if isinstance(t, (ast.Tuple, ast.List)) else [t]):
                    if isinstance(x, ast.Attribute) and isinstance(x.value, ast.Name):
                        if (x.value.id, x.attr) not in out:
                            out.append((x.value.id, x.attr))
    return out


def _loop_level(body, kinds):
    """statements of the given kinds that belong to this loop (not to a nested loop or function)"""
    out = []
    stack = list(body)
    while stack:
        n = stack.pop()
        if isinstance(n, kinds):
            out.append(n)
        if isinstance(n, (ast.For, ast.While, ast.AsyncFor)):
            stack.extend(n.orelse)
            continue
        if isinstance(n, (ast.FunctionDef, ast.AsyncFunctionDef, ast.Lambda, ast.ClassDef)):
            continue
        stack.extend(ast.iter_child_nodes(n))
    return out


def _desugar_count(self, s: ast.For, st: State):
    """for T in itertools.count(a[, step]): [if C: break;] BODY   is   T = a; while not C / True: BODY; T += step
    (T a plain name the body does not rebind, no `continue` of this loop, no else clause); None when the loop is of another kind"""
    it = s.iter
    if not (isinstance(it, ast.Call) and not it.keywords and len(it.args) <= 2 and isinstance(s.target, ast.Name) and not s.orelse):
        return None
    try:
        f = self.ev(it.func, st)
    except Unsupported:
        return None
    if not (f.op == "ext" and f.args[0] in ("itertools.count",)):
        return None
    if _loop_level(s.body, (ast.Continue,)) or s.target.id in _assigned_names(s.body):
        return None
    start = it.args[0] if it.args else ast.Constant(value=0)
    step = it.args[1] if len(it.args) > 1 else ast.Constant(value=1)
    body = list(s.body)
    test = ast.Constant(value=True)
    b0 = body[0] if body else None
    if isinstance(b0, ast.If) and not b0.orelse and len(b0.body) == 1 and isinstance(b0.body[0], ast.Break) and len(body) > 1:
        test = ast.UnaryOp(op=ast.Not(), operand=b0.test)
        body = body[1:]
    init = ast.Assign(targets=[ast.Name(id=s.target.id, ctx=ast.Store())], value=start)
    incr = ast.AugAssign(target=ast.Name(id=s.target.id, ctx=ast.Store()), op=ast.Add(), value=step)
    loop = ast.While(test=test, body=body + [incr], orelse=[])
    for n_ in (init, loop, test, init.targets[0], incr, incr.target):
        ast.copy_location(n_, s)
    ast.copy_location(incr, s.body[-1])
    ast.copy_location(incr.target, s.body[-1])
    ast.fix_missing_locations(init)
    ast.fix_missing_locations(loop)
    return [init, loop]


def _desugar_iter_sentinel(self, s: ast.For, st: State):
    """for T in iter(F, S): BODY   with F a function of the repository (a nested function, a helper, a partial)   is
    while True: T = F(); if T == S: break; BODY      (None for other loops, in particular for iter(<stream>.readline, S), which the text rules read as it is).
    Also  for I, T in enumerate(iter(F, S)[, start]):  with a counter that is advanced before BODY, and an iterator bound to a name of its own first
    (IT = iter(F, S), used by this loop only)."""
    it = s.iter
    cnt_t = start = None
    item_t = s.target
    if isinstance(it, ast.Call) and isinstance(it.func, ast.Name) and it.func.id == "enumerate" and 1 <= len(it.args) <= 2 and isinstance(s.target, ast.Tuple) and len(s.target.elts) == 2:
        kw = {k.arg: k.value for k in it.keywords}
        if set(kw) - {"start"} or (len(it.args) == 2 and kw) or not isinstance(s.target.elts[0], ast.Name):
            return None
        inner = it.args[0]
        if isinstance(inner, ast.Name) or (isinstance(inner, ast.Call) and isinstance(inner.func, ast.Name) and inner.func.id == "iter"):
            start = it.args[1] if len(it.args) == 2 else kw.get("start", ast.Constant(value=0))
            cnt_t, item_t = s.target.elts
            it = inner
    if isinstance(it, ast.Name) and isinstance(self.frame.fi.node, (ast.FunctionDef, ast.AsyncFunctionDef)):
        fnode = self.frame.fi.node
        defs = [a for a in ast.walk(fnode) if isinstance(a, ast.Assign) and len(a.targets) == 1 and isinstance(a.targets[0], ast.Name) and a.targets[0].id == it.id]
        uses = [n for n in ast.walk(fnode) if isinstance(n, ast.Name) and n.id == it.id]
        if len(defs) == 1 and len(uses) == 2 and it.id not in self.frame.fi.params:
            it = defs[0].value
    if not (isinstance(it, ast.Call) and isinstance(it.func, ast.Name) and it.func.id == "iter" and len(it.args) == 2 and not it.keywords and not s.orelse):
        return None
    try:
        f = self.ev(it.args[0], st)
    except Unsupported:
        return None
    if f.op not in ("closure", "func", "partial"):
        return None
    call = ast.Call(func=it.args[0], args=[], keywords=[])
    get = ast.Assign(targets=[item_t], value=call)
    tload = ast.parse(ast.unparse(item_t), mode="eval").body
    test = ast.If(test=ast.Compare(left=tload, ops=[ast.Eq()], comparators=[it.args[1]]), body=[ast.Break()], orelse=[])
    pre, head = [], []
    if cnt_t is not None:
        cname = "__enum%d_cnt" % fresh_uid()
        pre = [ast.Assign(targets=[ast.Name(id=cname, ctx=ast.Store())], value=start)]
        head = [ast.Assign(targets=[ast.Name(id=cnt_t.id, ctx=ast.Store())], value=ast.Name(id=cname, ctx=ast.Load())),
                ast.AugAssign(target=ast.Name(id=cname, ctx=ast.Store()), op=ast.Add(), value=ast.Constant(value=1))]
    loop = ast.While(test=ast.Constant(value=True), body=[get, test] + head + list(s.body), orelse=[])
    for top in pre + [loop]:
        for n_ in ast.walk(top):
            if getattr(n_, "lineno", None) is None:
                ast.copy_location(n_, s)
        ast.copy_location(top, s)
        ast.fix_missing_locations(top)
    return pre + [loop]


def _fuse_new_generator(self, s: ast.For, st: State):
    """for T in G(...): BODY with G a generator function that did not exist on the pinned tree: generator and consumer as one piece of code (bfsa/fuse.py)"""
    it = s.iter
    if not (isinstance(it, ast.Call) and isinstance(it.func, (ast.Name, ast.Attribute))):
        return None
    try:
        f = self.ev(it.func, st)
    except Unsupported:
        return None
    if f.op not in ("func", "bound"):
        return None
    from .fuse import fuse_for
    from .symexec import _is_new_function

    fi = self.fi_of(f)
    if fi is None or not fi.is_generator or fi.parent is not None or not _is_new_function(fi) or fi.module is not self.frame.fi.module or fi in [fr.fi for fr in self.frames]:
        return None
    receiver = None
    if fi.cls is not None:
        # a generator method of a class of the module: static methods bind nothing; class / instance methods bind their first parameter to the
        # receiver expression, which must be a plain name (cls, self, the class) so that it can be evaluated again
        if fi.kind == "staticmethod":
            receiver = None
        elif isinstance(it.func, ast.Attribute) and isinstance(it.func.value, ast.Name):
            rv = self.ev(it.func.value, st)
            if fi.kind == "classmethod" and rv.op != "class":
                return None
            if fi.kind != "classmethod" and rv.op == "class":
                return None
            receiver = it.func.value
        else:
            return None
    return fuse_for(s, fi.node, receiver)


def st_for(self, s: ast.For, st: State) -> Optional[State]:
    dc = _desugar_count(self, s, st)
    if dc is None:
        dc = _desugar_iter_sentinel(self, s, st)
    if dc is None:
        dc = _fuse_new_generator(self, s, st)
    if dc is not None:
        return self.block(dc, st)
    itv = self.ev(s.iter, st)
    items = self.iter_items(itv, st)
    if items is not None and self.unrolled_total + len(items) <= self.max_unroll:
        # concrete unrolling
        if not hasattr(self, "_jumps"):
            self._jumps = []
        broke: List[State] = []
        cur: Optional[State] = st
        self.unrolled_total += len(items)
        for it in items:
            if cur is None:
                break
            j = _Jump()
            self._jumps.append(j)
            try:
                self.assign_to(s.target, it, cur, s)
                cur = self.block(s.body, cur)
            finally:
                self._jumps.pop()
            broke.extend(j.breaks)
            for cs in j.continues:
                cur = cs if cur is None else self.merge(_jump_cond(cur, cs), cur, cs)
        if cur is not None and s.orelse:
            cur = self.block(s.orelse, cur)
        for b in broke:
            b.ctx = st.ctx
            cur = b if cur is None else self.merge(sym("brk"), cur, b)
        return cur
    return self.symbolic_loop(s, st, "for", itv)


def st_while(self, s: ast.While, st: State) -> Optional[State]:
    if not hasattr(self, "_jumps"):
        self._jumps = []
    # try concrete unrolling as long as the condition folds
    cur: Optional[State] = st
    broke: List[State] = []
    n = 0
    probe_events = len(self.trace)
    while True:
        probe = len(self.trace)
        c = self.truth(self.ev(s.test, cur), cur)
        if not is_const(c):
            if n == 0:
                del self.trace[probe:]
                return self.symbolic_loop(s, st, "while", None)
            raise Unsupported("loop at line %d: condition became symbolic after %d concrete iterations" % (s.lineno, n))
        if not cval(c):
            break
        if (isinstance(s.test, ast.Constant) or n == 0 and _always_true(s.test)) and not self.sym_bytes:
            # `while True` : symbolic treatment (exit via break)
            del self.trace[probe:]
            return self.symbolic_loop(s, st, "while", None)
        n += 1
        self.unrolled_total += 1
        if self.unrolled_total > self.max_unroll:
            raise Unsupported("unroll budget exceeded at line %d" % s.lineno)
        if self.sym_bytes and n > 600:
            raise Unsupported("loop at line %d does not terminate within 600 concrete iterations" % s.lineno)
        j = _Jump()
        self._jumps.append(j)
        try:
            cur = self.block(s.body, cur)
        finally:
            self._jumps.pop()
        broke.extend(j.breaks)
        for cs in j.continues:
            cur = cs if cur is None else self.merge(_jump_cond(cur, cs), cur, cs)
        if cur is None:
            break
    if cur is not None and s.orelse:
        cur = self.block(s.orelse, cur)
    for b in broke:
        b.ctx = st.ctx
        cur = b if cur is None else self.merge(sym("brk"), cur, b)
    return cur


def _always_true(test) -> bool:
    return isinstance(test, ast.Constant) and bool(test.value)


def symbolic_loop(self, s, st: State, kind: str, itv: Optional[Term]) -> Optional[State]:
    if not hasattr(self, "_jumps"):
        self._jumps = []
    lid = fresh_uid()
    lr = LoopRec(lid, kind, s, self.frame.fi)
    lr.iter = itv
    lr.has_else = bool(s.orelse)
    self.loops[lid] = lr
    base_ctx, base_facts = st.ctx, st.facts
    assigned = _assigned_names(s.body) + (_assigned_names([ast.Assign(targets=[s.target], value=ast.Constant(value=None))]) if kind == "for" else [])
    env = st.envs[-1]
    fr = self.frame
    # names whose only "assignment" in the body is `name += ...` on a list / bytearray keep pointing to the same (mutated) object
    inplace_only = _augadd_only_names(s.body)
    # loop-carried variables -> loop symbols
    kept_inplace = []
    for nm in list(assigned):
        if nm in env:
            if nm in inplace_only:
                o_ = self.obj(st, env[nm])
                if o_ is not None and o_.kind in ("list", "bytearray"):
                    _weaken(o_)
                    o_.version += 1
                    assigned.remove(nm)
                    kept_inplace.append(nm)
                    continue
            lr.init[nm] = env[nm]
            env[nm] = mk("loopvar", lid, nm)
        else:
            # may live in an enclosing (closure) frame
            pass
    attr_targets = list(_attr_store_targets(s.body))
    # a method called in the body on a local object may store into that object's attributes: those attributes are loop-carried as well
    for n_ in ast.walk(ast.Module(body=list(s.body), type_ignores=[])):
        if isinstance(n_, ast.Call) and isinstance(n_.func, ast.Attribute) and isinstance(n_.func.value, ast.Name):
            bt_ = env.get(n_.func.value.id)
            o_ = self.obj(st, bt_) if bt_ is not None else None
            if o_ is not None and o_.kind == "obj" and o_.cls is not None and o_.origin is None:
                m_ = o_.cls.lookup(n_.func.attr)
                if m_ is not None and isinstance(m_[1], FuncInfo) and isinstance(m_[1].node, (ast.FunctionDef, ast.AsyncFunctionDef)) and m_[1].node.args.args:
                    sname = m_[1].node.args.args[0].arg
                    for t_ in ast.walk(m_[1].node):
                        if isinstance(t_, ast.Attribute) and isinstance(t_.ctx, ast.Store) and isinstance(t_.value, ast.Name) and t_.value.id == sname:
                            if (n_.func.value.id, t_.attr) not in attr_targets:
                                attr_targets.append((n_.func.value.id, t_.attr))
    for (bn, an) in attr_targets:
        bt = env.get(bn)
        o = self.obj(st, bt) if bt is not None else None
        if o is not None and o.kind == "obj":
            man = self.mangle(an)
            if man in o.attrs:
                lr.init["%s.%s" % (bn, man)] = o.attrs[man]
                o.attrs[man] = mk("loopvar", lid, "%s.%s" % (bn, man))
    # containers mutated in the body become inexact *before* the body runs (their content at loop head is a join)
    for nm in _mutated_names(s.body):
        bt = None
        for envk in reversed(st.envs):
            if nm in envk:
                bt = envk[nm]
                break
        o = self.obj(st, bt) if bt is not None else None
        if o is not None and o.kind in ("list", "dict", "set", "bytearray"):
            _weaken(o)
            o.version += 1
    st.ctx = base_ctx + (("loop", lid),)
    head = st.fork()
    ev_loop = self.emit("loop", s, st, loop=lid, lkind=kind, iterable=itv)
    n0 = len(self.trace)
    body_state = st
    cond = None
    if kind == "while":
        cond = self.truth(self.ev(s.test, body_state), body_state)
        lr.cond = cond
        if is_const(cond) and not cval(cond):
            raise Unsupported("while loop with constant false symbolic condition")
        if not is_const(cond):
            body_state.ctx = body_state.ctx + (("if", cond, True, fresh_uid()),)
            self.add_fact(body_state, cond, True)
    else:
        el = self.elem_of(itv, lid, body_state)
        lr.target = el
        self.emit("iter", s.iter, body_state, iterable=itv, loop=lid)
        self.assign_to(s.target, el, body_state, s)
    j = _Jump()
    self._jumps.append(j)
    try:
        end = self.block(s.body, body_state)
    finally:
        self._jumps.pop()
    lr.body_events = (n0, len(self.trace))
    backs = ([end] if end is not None else []) + j.continues
    back = None
    for b in backs:
        back = b if back is None else self.merge(_jump_cond(back, b), back, b)
    if back is not None:
        for nm in list(lr.init.keys()):
            if "." in nm:
                bn, an = nm.split(".", 1)
                o = self.obj(back, back.envs[-1].get(bn)) if back.envs[-1].get(bn) is not None else None
                if o is not None and an in o.attrs:
                    lr.next[nm] = o.attrs[an]
            elif nm in back.envs[-1]:
                lr.next[nm] = back.envs[-1][nm]
        for nm in assigned:
            if nm not in lr.init and nm in back.envs[-1]:
                lr.next[nm] = back.envs[-1][nm]
    # ---- exit state
    exit_state: Optional[State] = None
    infinite = kind == "while" and cond is not None and is_const(cond) and cval(cond)
    if not infinite:
        # normal exit from the loop head (after zero or more iterations)
        ex = back.fork() if back is not None else head
        # heap: join of head (zero iterations) and back-edge state
        if back is not None:
            ex = self.merge(mk("sym", "iter", lid), head, back)
        ex.envs[-1] = dict(ex.envs[-1])
        mapping = {}
        for nm in set(lr.init) | set(lr.next):
            lv = mk("loopvar", lid, nm)
            le = mk("loopexit", lid, nm)
            mapping[lv.uid] = le
            if "." in nm:
                bn, an = nm.split(".", 1)
                bt = ex.envs[-1].get(bn)
                o = self.obj(ex, bt) if bt is not None else None
                if o is not None:
                    o.attrs[an] = le
            else:
                ex.envs[-1][nm] = le
        for nm in assigned:
            if nm not in lr.init and nm in lr.next:
                ex.envs[-1][nm] = mk("phi", mk("sym", "iter", lid), mk("unbound", nm), mk("loopexit", lid, nm))
        ex.ctx = base_ctx
        ex.facts = base_facts
        if kind == "while" and cond is not None and not is_const(cond):
            exit_cond = subst(cond, mapping)
            lr.exit_cond = exit_cond
            self.add_fact(ex, exit_cond, False)
        lr.exit_map = mapping
        if s.orelse:
            ex = self.block(s.orelse, ex)
        exit_state = ex
    for b in j.breaks:
        b.ctx = base_ctx
        # facts established inside the breaking iteration remain valid (they speak about that iteration's values)
        lr.breaks.append((dict(b.envs[-1]), b.facts))
        exit_state = b if exit_state is None else self.merge(mk("sym", "brk", lid), exit_state, b)
    if exit_state is not None:
        exit_state.ctx = base_ctx
    self.emit("loop_end", s, exit_state if exit_state is not None else head, loop=lid)
    return exit_state
