"""CONST: the checker's own arithmetic for auditing literal constants of /repo (no repository code is used):
minimal DER reader, short-Weierstrass curve arithmetic over integers, Miller-Rabin, OID encoding."""
from __future__ import annotations

from typing import List, Optional, Tuple


class DerError(Exception):
    pass


def der_tlv(buf: bytes, pos: int = 0) -> Tuple[int, bytes, int]:
    """(tag, value, next position); definite lengths only"""
    if pos + 2 > len(buf):
        raise DerError("truncated")
    tag = buf[pos]
    l = buf[pos + 1]
    pos += 2
    if l & 0x80:
        n = l & 0x7F
        if n == 0 or n > 4 or pos + n > len(buf):
            raise DerError("bad length")
        l = int.from_bytes(buf[pos:pos + n], "big")
        pos += n
    if pos + l > len(buf):
        raise DerError("value exceeds buffer")
    return tag, buf[pos:pos + l], pos + l


def oid_decode(v: bytes) -> Tuple[int, ...]:
    if not v:
        raise DerError("empty oid")
    out = [v[0] // 40, v[0] % 40]
    acc = 0
    for b in v[1:]:
        acc = (acc << 7) | (b & 0x7F)
        if not b & 0x80:
            out.append(acc)
            acc = 0
    return tuple(out)


def oid_encode(oid: Tuple[int, ...]) -> bytes:
    out = bytearray([oid[0] * 40 + oid[1]])
    for c in oid[2:]:
        chunk = [c & 0x7F]
        c >>= 7
        while c:
            chunk.append((c & 0x7F) | 0x80)
            c >>= 7
        out += bytes(reversed(chunk))
    return bytes(out)


OID_EC_PUBLIC_KEY = (1, 2, 840, 10045, 2, 1)
OID_PRIME256V1 = (1, 2, 840, 10045, 3, 1, 7)


def parse_spki_ec(buf: bytes):
    """SubjectPublicKeyInfo(ecPublicKey, namedCurve, BIT STRING 04||X||Y) -> (curve oid, x, y, header_len)"""
    tag, seq, end = der_tlv(buf, 0)
    if tag != 0x30 or end != len(buf):
        raise DerError("outer SEQUENCE")
    tag, alg, p2 = der_tlv(seq, 0)
    if tag != 0x30:
        raise DerError("AlgorithmIdentifier")
    t1, o1, q = der_tlv(alg, 0)
    t2, o2, q2 = der_tlv(alg, q)
    if t1 != 6 or t2 != 6 or q2 != len(alg):
        raise DerError("algorithm OIDs")
    if oid_decode(o1) != OID_EC_PUBLIC_KEY:
        raise DerError("not ecPublicKey")
    tag, bits, p3 = der_tlv(seq, p2)
    if tag != 3 or p3 != len(seq) or not bits or bits[0] != 0:
        raise DerError("BIT STRING")
    pt = bits[1:]
    if len(pt) % 2 != 1 or pt[0] != 4:
        raise DerError("uncompressed point expected")
    n = (len(pt) - 1) // 2
    x, y = int.from_bytes(pt[1:1 + n], "big"), int.from_bytes(pt[1 + n:], "big")
    header_len = len(buf) - 2 * n
    return oid_decode(o2), x, y, header_len


# ------------------------------------------------------------------------------------------------ arithmetic
def is_probable_prime(n: int) -> bool:
    if n < 2:
        return False
    small = [2, 3, 5, 7, 11, 13, 17, 19, 23, 29, 31, 37]
    for p in small:
        if n % p == 0:
            return n == p
    d, r = n - 1, 0
    while d % 2 == 0:
        d //= 2
        r += 1
    for a in small + [41, 43, 47, 53, 59, 61, 67, 71]:
        x = pow(a, d, n)
        if x in (1, n - 1):
            continue
        for _ in range(r - 1):
            x = x * x % n
            if x == n - 1:
                break
        else:
            return False
    return True


def on_curve(p: int, a: int, b: int, x: int, y: int) -> bool:
    return 0 <= x < p and 0 <= y < p and (y * y - (x * x * x + a * x + b)) % p == 0


def ec_add(p, a, P, Q):
    if P is None:
        return Q
    if Q is None:
        return P
    x1, y1 = P
    x2, y2 = Q
    if x1 == x2:
        if (y1 + y2) % p == 0:
            return None
        l = (3 * x1 * x1 + a) * pow(2 * y1, -1, p) % p
    else:
        l = (y2 - y1) * pow(x2 - x1, -1, p) % p
    x3 = (l * l - x1 - x2) % p
    return x3, (l * (x1 - x3) - y1) % p


def ec_mul(p, a, k, P):
    R = None
    Q = P
    while k:
        if k & 1:
            R = ec_add(p, a, R, Q)
        Q = ec_add(p, a, Q, Q)
        k >>= 1
    return R


# NIST P-256 (FIPS 186-4 D.1.2.3), written from the standard
P256 = {
    "p": 2 ** 256 - 2 ** 224 + 2 ** 192 + 2 ** 96 - 1,
    "a": -3,
    "b": 0x5AC635D8AA3A93E7B3EBBD55769886BC651D06B0CC53B0F63BCE3C3E27D2604B,
    "n": 0xFFFFFFFF00000000FFFFFFFFFFFFFFFFBCE6FAADA7179E84F3B9CAC2FC632551,
    "Gx": 0x6B17D1F2E12C4247F8BCE6E563A440F277037D812DEB33A0F4A13945D898C296,
    "Gy": 0x4FE342E2FE1A7F9B8EE7EB4A7C0F9E162BCE33576B315ECECBB6406837BF51F5,
}
