"""Structural abstract interpreter (FLOW engine).

Walks the syntax tree of repository functions with symbolic values (hash-consed terms).  Both arms of
every undecided branch are explored and joined, loops over concrete ranges are unrolled, other loops
are executed once with loop-carried variables abstracted to loop symbols (the loop record keeps
init/next so that algebraic domains can interpret the transfer function).  Nothing from /repo is
executed: values are terms, the only concrete computation is constant folding of literals.

Output: an ordered event trace (guards, raises, calls, reads, stores, returns) where each event carries
its structural context (enclosing branch / loop / try frames) and the path facts known to hold.
"""
from __future__ import annotations

import ast
from typing import Any, Dict, List, Optional, Tuple

from .heap import BUILTIN_EXC, Event, FrameInfo, HObj, LoopRec, PathDead, State, Unsupported
from .load import AnalysisError, ClassInfo, FuncInfo, ModuleInfo, NotConst, Program, _dotted
from .terms import C, FALSE, NONE, TRUE, Term, cval, fresh_uid, is_const, mk, show, subst, sym


def default_policy(ex, fi: FuncInfo, depth: int) -> bool:
    return depth < 6


_PINNED = None


def _is_new_function(fi: FuncInfo) -> bool:
    """a function that did not exist on the pinned tree the rules were written against (spec/pinned_functions.json): e.g. a helper
    extracted by a refactoring.  No rule can name it, so it is interpreted as part of its caller rather than left as an opaque call."""
    global _PINNED
    if _PINNED is None:
        import json
        import os

        try:
            _PINNED = set(json.load(open(os.path.join(os.path.dirname(os.path.dirname(os.path.abspath(__file__))), "spec", "pinned_functions.json")))["functions"])
        except (OSError, ValueError, KeyError):
            _PINNED = set()
            return False
    if not _PINNED or fi.name == "<lambda>":
        return False
    return fi.qualname not in _PINNED


class Exec:
    def __init__(self, prog: Program, policy=None, registered: bool = True, max_unroll: int = 4096, max_events: int = 400000):
        self.prog = prog
        base_policy = policy or default_policy
        self.policy = lambda ex, fi, depth, _p=base_policy: _p(ex, fi, depth) or (depth < 8 and _is_new_function(fi))
        self.trace: List[Event] = []
        self.loops: Dict[int, LoopRec] = {}
        self.frames: List[FrameInfo] = []
        self.fis: Dict[int, FuncInfo] = {}
        self.statics: Dict[str, Any] = {}
        self.max_unroll = max_unroll
        self.max_events = max_events
        self.unrolled_total = 0
        self.unresolved_calls: List[str] = []
        self.global_overrides: Dict[Tuple[str, str], Term] = {}
        self.item_overrides: Dict[Tuple[str, str, Any], Term] = {}  # (module, module-level dict, constant key) -> registered implementation
        self.registry: Dict[str, Term] = {}  # "AES128" -> class registered through register_AES128, ...
        self.global_store: Dict[Tuple[str, str], Term] = {}
        self.dead_envs: Dict[int, Dict[str, Term]] = {}  # variables of finished activations that created closures (frame uid -> env)
        self.nt_fields: Dict[int, set] = {}  # tuple term uid -> field name tuples of the named-tuple classes it was built by
        self.registered = registered
        self.notes: List[str] = []
        self.type_hints: Dict[int, Any] = {}
        self.summaries: Dict[str, Any] = {}  # qualname -> hook(ex, fi, args, kwargs, st, node) -> Term | None
        self._prop_getters: Dict[int, FuncInfo] = {}
        self._dead = None
        self._global_eval_busy = set()
        self.mac_axiom = False  # scenarios may assume that MACs (cipher blocks) of different inputs differ
        self.sym_bytes = False  # bytes(<known items>) yields an 'sbytes' value instead of an opaque call
        self.replaced_bases: set = set()
        if registered:
            self._bind_registry()
            for t in list(self.global_overrides.values()) + list(self.item_overrides.values()):
                if t.op == "class":
                    rc = self.prog.classes.get(t.args[0])
                    if rc is not None:
                        for b in rc.mro()[1:]:
                            if isinstance(b, ClassInfo):
                                self.replaced_bases.add(b.qualname)
        from . import models

        self.models = models

    # ------------------------------------------------------------------ registry
    def _bind_registry(self):
        """`@register_X class Impl` in the plug-in rebinds a module global of bec2format.crypto:
        derive the binding from the syntax of register_X (`global G; G = impl`)."""
        for m in self.prog.modules.values():
            if m.is_test:
                continue
            for st in self.prog.live_body(m, m.tree.body):
                if isinstance(st, (ast.ClassDef, ast.FunctionDef)):
                    for d in st.decorator_list:
                        tgt = self.prog.resolve_expr_static(m, d)
                        if isinstance(tgt, FuncInfo):
                            slot = _registry_slot(tgt)
                            if slot:
                                obj = m.symbols.get(st.name)
                                val = mk("class", obj[1].qualname) if obj and obj[0] == "class" else self.fterm(obj[1]) if obj and obj[0] == "func" else None
                                if val is None:
                                    continue
                                if slot[0] == "global":
                                    self.global_overrides[(tgt.module.name, slot[1])] = val
                                else:
                                    self.item_overrides[(tgt.module.name, slot[1], slot[2])] = val
                                # the implementation registered through register_<NAME>
                                self.registry[tgt.name[len("register_"):] if tgt.name.startswith("register_") else tgt.name] = val

    # ------------------------------------------------------------------ helpers
    def fterm(self, fi: FuncInfo) -> Term:
        self.fis[id(fi.node)] = fi
        return mk("func", fi.qualname, id(fi.node))

    def fi_of(self, t: Term) -> FuncInfo:
        return self.fis[t.args[1]]

    @property
    def frame(self) -> FrameInfo:
        return self.frames[-1]

    def emit(self, kind, node, st: State, **d) -> Event:
        if len(self.trace) > self.max_events:
            raise Unsupported("event budget exceeded")
        fn = self.frames[-1].fi if self.frames else None
        ev = Event(len(self.trace), kind, fn, node, st.ctx, st.facts, tuple(f.fi.qualname for f in self.frames), **d)
        self.trace.append(ev)
        if self.sym_bytes and (kind == "raise" or d.get("certain_fail")):
            # concrete-control scenarios: remember where the path ended and with which exception (for precise try/except)
            cf = d.get("certain_fail")
            self._dead = (st, d.get("exc") if kind == "raise" else (cf if isinstance(cf, str) else "LookupError"))
        return ev

    def new_obj(self, st: State, kind, cls=None, origin=None, label="") -> Term:
        oid = fresh_uid()
        o = HObj(kind, cls, origin, label)
        o.created_ctx = st.ctx
        st.heap[oid] = o
        return mk("ref", oid, label or kind)

    def obj(self, st: State, t: Term) -> Optional[HObj]:
        if isinstance(t, Term) and t.op == "ref":
            return st.heap.get(t.args[0])
        return None

    def new_list(self, st, items, label="list") -> Term:
        r = self.new_obj(st, "list", label=label)
        self.obj(st, r).items = list(items)
        return r

    def static(self, qual: str, value) -> Term:
        self.statics[qual] = value
        return mk("static", qual)

    def lift(self, v, qual=None) -> Term:
        """python constant -> term"""
        if isinstance(v, Term):
            return v  # an item of a static table that is already a term (a class, a function)
        if isinstance(v, (list, dict, set)) or (isinstance(v, tuple) and len(v) > 16):
            return self.static(qual or "anon%d" % fresh_uid(), v)
        return C(v)

    def concrete(self, t: Term, st: State = None):
        """python value of a term if it denotes a concrete constant, else raises NotConst"""
        if t.op == "const":
            return t.args[0]
        if t.op == "static":
            return self.statics[t.args[0]]
        if t.op == "tuple":
            return tuple(self.concrete(x, st) for x in t.args[0])
        if t.op == "ref" and st is not None:
            o = self.obj(st, t)
            if o is not None and o.kind == "list" and o.exact:
                return [self.concrete(x, st) for x in o.items]
            if o is not None and o.kind == "dict" and o.exact and not o.writes:
                return {k: self.concrete(v, st) for k, v in o.kv.items()}
        raise NotConst()

    def is_concrete(self, t, st=None) -> bool:
        try:
            self.concrete(t, st)
            return True
        except NotConst:
            return False

    def mangle(self, name: str) -> str:
        if name.startswith("__") and not name.endswith("__") and self.frames:
            c = self.frame.fi.cls
            if c is not None:
                return "_" + c.name.lstrip("_") + name
        return name

    # ------------------------------------------------------------------ entry points
    def run(self, fi: FuncInfo, args: Optional[Dict[str, Term]] = None, self_cls: Optional[ClassInfo] = None, setup=None) -> "Result":
        """symbolically execute `fi` as an entry point; parameters are symbolic unless given
        (`setup(state)` may allocate heap objects and return the argument binding)"""
        st = State()
        if setup is not None:
            args = dict(args or {})
            args.update(setup(st))
        bind: Dict[str, Term] = {}
        a = fi.node.args
        names = [x for x in a.posonlyargs + a.args + a.kwonlyargs]
        for i, x in enumerate(names):
            nm = x.arg
            if args and nm in args:
                bind[nm] = args[nm]
                continue
            if i == 0 and fi.cls is not None and fi.kind in ("function", "property", "setter") and fi.parent is None:
                cls = self_cls or fi.cls
                bind[nm] = self.new_obj(st, "obj", cls=cls, origin=mk("param", nm), label="self")
            elif i == 0 and fi.cls is not None and fi.kind == "classmethod" and fi.parent is None:
                bind[nm] = mk("class", (self_cls or fi.cls).qualname)
            else:
                bind[nm] = self.param_value(st, fi, x)
        if a.vararg:
            bind[a.vararg.arg] = mk("param", "*" + a.vararg.arg)
        if a.kwarg:
            bind[a.kwarg.arg] = mk("param", "**" + a.kwarg.arg)
        self_term = None
        if fi.cls is not None and names and fi.kind in ("function", "property", "setter", "classmethod"):
            self_term = bind[names[0].arg]
        start = len(self.trace)
        try:
            ret, st2 = self._run_body(fi, bind, st, None, None, self_term)
            dead = False
        except PathDead:
            ret, st2, dead = None, None, True
        self.last_heap = st2.heap if st2 is not None else {}
        return Result(self, fi, ret, st2, start, len(self.trace), dead, bind)

    def run_driver(self, module: ModuleInfo, src: str, args: Optional[Dict[str, Term]] = None, setup=None) -> "Result":
        """interpret a synthetic entry point (analysis scaffold written by a rule, never repo code) whose free names
        resolve in `module`; used to compose several repo calls on one abstract heap"""
        import textwrap

        node = ast.parse(textwrap.dedent(src)).body[0]
        fi = FuncInfo(module, node, module.name + ".<driver:%s>" % node.name, None)
        return self.run(fi, args=args, setup=setup)

    def param_value(self, st: State, fi: FuncInfo, argnode: ast.arg) -> Term:
        ann = argnode.annotation
        p = mk("param", argnode.arg)
        if ann is not None:
            c = self._ann_class(fi.module, ann)
            if isinstance(c, ClassInfo):
                return self.new_obj(st, "obj", cls=c, origin=p, label=argnode.arg)
        return p

    def _ann_class(self, m: ModuleInfo, ann):
        if isinstance(ann, ast.Constant) and isinstance(ann.value, str):
            try:
                ann = ast.parse(ann.value, mode="eval").body
            except SyntaxError:
                return None
        if isinstance(ann, (ast.Name, ast.Attribute)):
            return self.prog.resolve_expr_static(m, ann)
        return None

    def _run_body(self, fi: FuncInfo, bind: Dict[str, Term], st: State, closure_frame, node, self_term, captured=None):
        fr = FrameInfo(fi, closure_frame, self_term)
        fr.captured = captured
        self.fis[id(fi.node)] = fi
        self.frames.append(fr)
        st.envs.append(dict(bind))
        try:
            if isinstance(fi.node, ast.Lambda):
                v = self.ev(fi.node.body, st)
                env_ = st.envs.pop()
                if fr.made_closure:
                    self.dead_envs[fr.uid] = env_
                return v, st
            trace0 = len(self.trace)
            if fi.is_generator:
                lst = self.new_obj(st, "list", label="gen:" + fi.name)
                o = self.obj(st, lst)
                # concrete-control scenarios run the generator body to its end on concrete control: the yielded values are known one by one
                # (the body is run eagerly: sound for the verdicts drawn from scenarios as long as the consumer does not share state with the generator)
                o.exact = bool(self.sym_bytes)
                o.is_gen = True
                fr.yields = lst.args[0]
            end = self.block(self._body_of(fi), st)
            finals: List[Tuple[Term, State]] = list(fr.returns)
            if end is not None:
                self.emit("return", fi.node, end, value=NONE, implicit=True)
                finals.append((NONE, end))
            if not finals:
                raise PathDead()
            val, merged = self._merge_returns(finals)
            env_ = merged.envs.pop()
            if fr.made_closure:
                self.dead_envs[fr.uid] = env_
            if fi.is_generator:
                val = mk("ref", fr.yields, "gen:" + fi.name)
                go = merged.heap.get(fr.yields)
                if go is not None and not go.exact:
                    # a state that leaves a loop by `return` has not seen the yields of that loop's (abstract) iteration: the stream is what the frame's
                    # yield events say, whichever path ends the generator
                    depth = len(self.frames)
                    ys = [e for e in self.trace[trace0:] if e.kind == "yield" and len(e.stack) == depth and e.fn is fi]
                    if len(ys) > len(go.items):
                        go.items = [(e.d["value"], e.ctx, "yield") for e in ys]
            st.heap, st.envs, st.facts = merged.heap, merged.envs, merged.facts
            return val, st
        finally:
            self.frames.pop()

    def _body_of(self, fi: FuncInfo):
        """the statements of a function, with the idioms that have an equivalent plain form written in that form (see bfsa/fuse.py)"""
        cache = self.prog.__dict__.setdefault("_body_cache", {})
        key = id(fi.node)
        if key not in cache:
            body = fi.node.body
            if isinstance(fi.node, (ast.FunctionDef, ast.AsyncFunctionDef)):
                from .fuse import zip_lists_to_dict

                new = zip_lists_to_dict(fi.node)
                if new is not None:
                    body = new.body
                else:
                    from .fuse import rotate_deferred

                    rot = rotate_deferred(fi.node)
                    if rot is not None:
                        body = rot
                    else:
                        from .fuse import inline_visitors

                        def resolve_new(nm, _m=fi.module):
                            sym_ = _m.symbols.get(nm)
                            f_ = sym_[1] if sym_ is not None and sym_[0] == "func" else None
                            return f_.node if isinstance(f_, FuncInfo) and f_.cls is None and _is_new_function(f_) else None

                        inl = inline_visitors(fi.node, resolve_new)
                        if inl is not None:
                            body = inl
            cache[key] = (fi.node, body)
        return cache[key][1]

    def _phi_value(self, c: Term, a: Term, b: Term) -> Term:
        """the value `a if c else b`; two records of the same named-tuple fields merge field by field (the record of the conditional fields)"""
        if a.op == "tuple" and b.op == "tuple" and len(a.args[0]) == len(b.args[0]) and a.uid in self.nt_fields and self.nt_fields.get(a.uid) == self.nt_fields.get(b.uid) and len(self.nt_fields[a.uid]) == 1:
            t = mk("tuple", tuple(x if x is y else mk("phi", c, x, y) for x, y in zip(a.args[0], b.args[0])))
            self.nt_fields.setdefault(t.uid, set()).update(self.nt_fields[a.uid])
            ncl = self.__dict__.get("nt_class", {})
            if ncl.get(a.uid) and ncl.get(a.uid) == ncl.get(b.uid):
                ncl.setdefault(t.uid, set()).update(ncl[a.uid])
            return t
        return mk("phi", c, a, b)

    def _merge_returns(self, finals):
        # two return paths whose facts are a common prefix followed by (c, True) / (c, False) were separated by the test c: their values merge under c
        # (`if a: return x` / `elif b: return y` / `return z` gives phi(a, x, phi(b, y, z)) like the corresponding conditional expression)
        finals = list(finals)
        progress = True
        while progress and len(finals) > 1:
            progress = False
            for i in range(len(finals) - 1):
                (v1, s1), (v2, s2) = finals[i], finals[i + 1]
                f1, f2 = s1.facts, s2.facts
                if len(f1) == len(f2) and len(f1) >= 1 and f1[:-1] == f2[:-1] and f1[-1][0] is f2[-1][0] and bool(f1[-1][1]) != bool(f2[-1][1]):
                    c = f1[-1][0]
                    a, b = ((v1, s1), (v2, s2)) if f1[-1][1] else ((v2, s2), (v1, s1))
                    m = self.merge(c, a[1], b[1])
                    m.facts = tuple(f1[:-1])
                    finals[i:i + 2] = [(a[0] if a[0] is b[0] else self._phi_value(c, a[0], b[0]), m)]
                    progress = True
                    break
        if len(finals) == 2:
            # the two remaining return paths part at a test c (one went on under c, the other under not c; what was tested after that on either side -- and
            # ended in a raise on its other branch -- does not matter for WHICH of the two values is returned)
            (v1, s1), (v2, s2) = finals
            f1, f2 = s1.facts, s2.facts
            k = 0
            while k < min(len(f1), len(f2)) and f1[k] == f2[k]:
                k += 1
            if k < min(len(f1), len(f2)) and f1[k][0] is f2[k][0] and bool(f1[k][1]) != bool(f2[k][1]):
                c = f1[k][0]
                a, b = ((v1, s1), (v2, s2)) if f1[k][1] else ((v2, s2), (v1, s1))
                m = self.merge(c, a[1], b[1])
                m.facts = tuple(f1[:k])
                return (a[0] if a[0] is b[0] else self._phi_value(c, a[0], b[0])), m
        val, s = finals[0]
        for v2, s2 in finals[1:]:
            sel = sym("path")
            s = self.merge(sel, s, s2)
            val = val if val is v2 else mk("phi", sel, val, v2)
        return val, s

    # ------------------------------------------------------------------ state merging
    def merge(self, cond: Term, a: State, b: State) -> State:
        r = State()
        r.ctx = a.ctx
        fa = set(a.facts)
        r.facts = tuple(f for f in b.facts if f in fa)
        n = min(len(a.envs), len(b.envs))
        for i in range(n):
            ea, eb = a.envs[i], b.envs[i]
            e = {}
            for k in ea.keys() | eb.keys():
                va, vb = ea.get(k), eb.get(k)
                if va is vb:
                    e[k] = va
                elif va is None or vb is None:
                    e[k] = mk("phi", cond, va if va is not None else mk("unbound", k), vb if vb is not None else mk("unbound", k))
                else:
                    e[k] = mk("phi", cond, va, vb)
            r.envs.append(e)
        for oid in a.heap.keys() | b.heap.keys():
            oa, ob = a.heap.get(oid), b.heap.get(oid)
            if oa is None or ob is None:
                r.heap[oid] = (oa or ob).clone()
                continue
            r.heap[oid] = self._merge_obj(cond, oa, ob)
        return r

    def _merge_obj(self, cond, oa: HObj, ob: HObj) -> HObj:
        if oa.version == ob.version and oa.exact == ob.exact and oa.items == ob.items and oa.kv == ob.kv and oa.attrs == ob.attrs and len(oa.writes) == len(ob.writes):
            return oa.clone()
        o = oa.clone()
        o.version = max(oa.version, ob.version) + 1
        if o.kind in ("list", "bytearray", "set"):
            if oa.exact and ob.exact and len(oa.items) == len(ob.items):
                o.items = [x if x is y else mk("phi", cond, x, y) for x, y in zip(oa.items, ob.items)]
            else:
                ia = oa.items if not oa.exact else [(x, oa.created_ctx, "init") for x in oa.items]
                ib = ob.items if not ob.exact else [(x, ob.created_ctx, "init") for x in ob.items]
                seen = []
                for it in ia + ib:
                    if not any(it[0] is s[0] and it[1] == s[1] for s in seen):
                        seen.append(it)
                o.items = seen
                o.exact = False
        elif o.kind == "dict":
            if oa.exact and ob.exact and list(oa.kv.keys()) == list(ob.kv.keys()):
                o.kv = {k: (oa.kv[k] if oa.kv[k] is ob.kv[k] else mk("phi", cond, oa.kv[k], ob.kv[k])) for k in oa.kv}
            else:
                o.exact = False
                sa = set(oa.kv.keys()) if oa.exact else (oa.sure or set())
                sb = set(ob.kv.keys()) if ob.exact else (ob.sure or set())
                o.sure = sa & sb
                ws = []
                for src in (oa, ob):
                    for k, v in src.kv.items():
                        ws.append((C(k), v, src.created_ctx))
                    ws.extend(src.writes)
                seen = []
                for w in ws:
                    if not any(w[0] is s[0] and w[1] is s[1] for s in seen):
                        seen.append(w)
                o.writes = seen
                o.kv = {}
        for k in oa.attrs.keys() | ob.attrs.keys():
            va, vb = oa.attrs.get(k), ob.attrs.get(k)
            if va is vb:
                o.attrs[k] = va
            else:
                o.attrs[k] = mk("phi", cond, va if va is not None else mk("unbound", k), vb if vb is not None else mk("unbound", k))
        return o


def _registry_global(fi: FuncInfo) -> Optional[str]:
    slot = _registry_slot(fi)
    return slot[1] if slot and slot[0] == "global" else None


def _registry_slot(fi: FuncInfo):
    """where a one-argument registration function stores its argument: ("global", G) for `global G; G = impl`,
    ("item", D, key) for `D[<constant key>] = impl` on a module-level dictionary D"""
    if not isinstance(fi.node, ast.FunctionDef) or len(fi.params) != 1:
        return None
    g = None
    for s in fi.node.body:
        if isinstance(s, ast.Global) and len(s.names) == 1:
            g = s.names[0]
        if isinstance(s, ast.Assign) and len(s.targets) == 1 and isinstance(s.value, ast.Name) and s.value.id == fi.params[0]:
            t = s.targets[0]
            if g and isinstance(t, ast.Name) and t.id == g:
                return ("global", g)
            if isinstance(t, ast.Subscript) and isinstance(t.value, ast.Name) and isinstance(t.slice, ast.Constant) and t.value.id not in fi.params:
                return ("item", t.value.id, t.slice.value)
    return None


class Result:
    def __init__(self, ex: Exec, fi, ret, state, start, end, dead, params):
        self.ex = ex
        self.fi = fi
        self.ret = ret
        self.state = state
        self.start = start
        self.end = end
        self.dead = dead
        self.params = params

    @property
    def events(self) -> List[Event]:
        return self.ex.trace[self.start:self.end]

    def of_kind(self, *kinds) -> List[Event]:
        return [e for e in self.events if e.kind in kinds]


def _install_mixins():
    import inspect
    from . import exprs, stmts

    for mod in (exprs, stmts):
        for name, fn in vars(mod).items():
            if inspect.isfunction(fn) and fn.__module__ == mod.__name__:
                params = list(inspect.signature(fn).parameters)
                if params and params[0] == "self":
                    setattr(Exec, name, fn)


_install_mixins()
