"""LAYOUT: byte-string construction (writer side) and reader consumption grammars, as folds over the
terms / event traces produced by symexec.

Writer segments (python tuples):
  ("const", bytes) ("int", width, value_term, byteorder) ("opaque", term) ("repeat", loop_id, [segs], iter_term)
  ("zeros", count_term) ("mac", call_term) ("alt", cond, [segs], [segs])
Reader items:
  RField / RLoop / REof / RSeek  (see classes)
"""
from __future__ import annotations

from typing import Any, Dict, List, Optional, Tuple

from .heap import Event, Unsupported
from .terms import C, NONE, Term, cval, is_const, mk, show


# =========================================================================== writer side
def is_call_named(t: Term, *names) -> bool:
    """opaque call to a repo function whose qualname ends with one of names"""
    if t.op != "call" or not isinstance(t.args[0], Term):
        return False
    f = t.args[0]
    if f.op == "func":
        return any(f.args[0] == n or f.args[0].endswith("." + n) for n in names)
    return False


def meth_call(t: Term) -> Optional[Tuple[Term, str, tuple, tuple]]:
    """(receiver, method name, args, kwargs) of a method-call term"""
    if t.op == "call" and isinstance(t.args[0], Term) and t.args[0].op == "meth":
        recv = t.args[0].args[0]
        if recv.op == "snap":
            recv = recv.args[0]
        return recv, t.args[0].args[1], t.args[1], t.args[2]
    return None


def builtin_call(t: Term) -> Optional[Tuple[str, tuple, tuple]]:
    if t.op == "call" and isinstance(t.args[0], Term) and t.args[0].op in ("builtin", "ext"):
        return t.args[0].args[0], t.args[1], t.args[2]
    return None


def unsnap(t: Term) -> Term:
    while t.op == "snap":
        t = t.args[0]
    return t


class Writer:
    def __init__(self, ex, mac_names=("cmac",)):
        self.ex = ex
        self.mac_names = mac_names

    def flatten(self, t: Term, depth=0) -> List[tuple]:
        if depth > 60:
            raise Unsupported("layout nesting too deep")
        ex = self.ex
        F = lambda x: self.flatten(x, depth + 1)
        t = unsnap(t)
        if is_const(t):
            v = cval(t)
            if isinstance(v, (bytes, bytearray)):
                return [("const", bytes(v))] if v else []
            raise Unsupported("non-bytes constant %r in a byte layout" % (v,))
        if t.op == "bin" and t.args[0] == "Add":
            return _merge_consts(F(t.args[1]) + F(t.args[2]))
        if t.op == "bin" and t.args[0] == "Mult":
            # b"\x00" * n  (either order)
            l, r = unsnap(t.args[1]), unsnap(t.args[2])
            for bs, cnt in ((l, r), (r, l)):
                if is_const(bs) and isinstance(cval(bs), (bytes, bytearray)) and bytes(cval(bs)) == b"\x00" and _intish(cnt):
                    return [("const", bytes(cval(cnt)))] if is_const(cnt) and cval(cnt) >= 0 else [("zeros", cnt)]
        mc = meth_call(t)
        if mc is not None:
            recv, name, args, kwargs = mc
            if name == "to_bytes" and len(args) >= 1 and is_const(args[0]):
                order = args[1] if len(args) > 1 else dict(kwargs).get("byteorder", C("big"))
                return [("int", cval(args[0]), recv, cval(order) if is_const(order) else "?")]
            if name == "join" and is_const(recv) and cval(recv) == b"":
                pass
        if t.op == "join":
            sep, arg = t.args
            if not (is_const(sep) and cval(sep) == b""):
                raise Unsupported("join with non-empty separator")
            arg = unsnap(arg)
            if arg.op == "tuple":
                out = []
                for x in arg.args[0]:
                    out += F(x)
                return _merge_consts(out)
            if arg.op == "comp":
                kind, elt, it, lid = arg.args[0], arg.args[1], arg.args[2], arg.args[3]
                return [("repeat", lid, F(elt), it)]
            if arg.op == "ref":
                hist = self._history(arg, depth)
                return hist if hist is not None else [("listjoin", arg)]
            raise Unsupported("join over %s" % arg.op)
        if t.op == "loopexit" or t.op == "loopvar":
            lid, nm = t.args
            lr = ex.loops.get(lid)
            if lr is None or nm not in lr.init or nm not in lr.next:
                return [("opaque", t)]
            if t.op == "loopvar":
                return [("opaque", t)]
            init = F(lr.init[nm])
            nxt = F(lr.next[nm])
            lv = mk("loopvar", lid, nm)
            if nxt and nxt[0] == ("opaque", lv):
                delta = nxt[1:]
                if any(s == ("opaque", lv) for s in delta):
                    raise Unsupported("accumulator used twice in its own update")
                return _merge_consts(init + [("repeat", lid, delta, lr.iter)])
            raise Unsupported("loop accumulator %s is not of the form acc = acc + ..." % nm)
        bc = builtin_call(t)
        if bc is not None:
            name, args, kwargs = bc
            if name == "bytes" and len(args) == 1:
                a = unsnap(args[0])
                # bytes(n) with an integer n: n zero bytes
                if _intish(a):
                    if is_const(a):
                        if cval(a) < 0:
                            raise Unsupported("bytes(%d)" % cval(a))
                        return [("const", bytes(cval(a)))] if cval(a) else []
                    return [("zeros", a)]
                # bytes([0x00] * n) / bytes([a, b, c]) / bytes(x)
                if a.op == "bin" and a.args[0] == "Mult":
                    l, r = unsnap(a.args[1]), unsnap(a.args[2])
                    for lst, cnt in ((l, r), (r, l)):
                        items = ex.iter_items(lst, None) if lst.op != "ref" else None
                        if lst.op == "ref":
                            items = self._list_items(lst)
                        if items is not None and len(items) == 1 and is_const(items[0]) and cval(items[0]) == 0:
                            return [("zeros", cnt)]
                if a.op == "ref":
                    # bytes(BA) taken while BA is still being filled (the MAC input of an entry that then receives its MAC): the content at the time of the conversion
                    snap_ = None
                    if args[0].op == "snap":
                        for e_ in reversed(ex.trace):
                            if e_.kind == "extcall" and e_.d.get("result") is t and e_.d.get("snapshot_of") is not None:
                                snap_ = e_.d["snapshot_of"]
                                break
                    ho = snap_ if snap_ is not None else self._heap_obj(a)
                    if ho is not None and ho.kind == "bytearray":
                        snaps_ = getattr(self, "list_snapshots", None)
                        if snap_ is not None:
                            if snaps_ is None:
                                snaps_ = self.list_snapshots = {}
                            prev_ = snaps_.get(a.args[0], "none")
                            snaps_[a.args[0]] = snap_
                        try:
                            hist = self._history(a, depth)
                        finally:
                            if snap_ is not None:
                                if prev_ == "none":
                                    snaps_.pop(a.args[0], None)
                                else:
                                    snaps_[a.args[0]] = prev_
                        if hist is not None:
                            return hist
                    items = self._list_items(a)
                    if items is not None:
                        return _merge_consts([("const", bytes([cval(x)])) if is_const(x) and isinstance(cval(x), int) and 0 <= cval(x) < 256 else ("int", 1, x, "big") for x in items])
                if a.op == "tuple":
                    return _merge_consts([("const", bytes([cval(x)])) if is_const(x) else ("int", 1, x, "big") for x in a.args[0]])
                return F(a) if a.op in ("bin", "join", "loopexit", "phi") else [("opaque", t)]
        if t.op == "ref":
            # a bytearray used as a byte string (appended to another one, concatenated): its construction history
            ho = self._heap_obj(t)
            if ho is not None and ho.kind == "bytearray":
                hist = self._history(t, depth)
                if hist is not None:
                    return hist
        if t.op == "phi":
            a, b = F(t.args[1]), F(t.args[2])
            if a == b:
                return a
            return [("alt", t.args[0], a, b)]
        if is_call_named(t, *self.mac_names):
            return [("mac", t)]
        return [("opaque", t)]

    def _heap_obj(self, ref: Term):
        snaps = getattr(self, "list_snapshots", {})
        o = snaps.get(ref.args[0])
        if o is None:
            o = (getattr(self.ex, "_final_heap", None) or getattr(self.ex, "last_heap", None) or {}).get(ref.args[0])
        return o

    def _history(self, ref: Term, depth=0) -> Optional[List[tuple]]:
        """layout of b"".join(L) / bytes(BA) for a list of byte strings / a bytearray that was filled step by step: the heap object keeps
        (value, context, how) for every append / extend / += ; steps outside loops follow each other, steps inside one loop (relative to
        the place the container was created) repeat with that loop.  Anything else (conditional steps, insert, pop) is not interpreted."""
        o = self._heap_obj(ref)
        if o is None or o.kind not in ("list", "bytearray"):
            return None
        F = lambda x: self.flatten(x, depth + 1)
        is_ba = o.kind == "bytearray"

        def one(val, how):
            if how in ("append", "init", "yield"):
                if is_ba:
                    v = unsnap(val)
                    return [("const", bytes([cval(v)]))] if is_const(v) and isinstance(cval(v), int) and 0 <= cval(v) < 256 else [("int", 1, val, "big")]
                return F(val)
            if how == "extend":
                if is_ba:
                    return F(val)
                v_ = unsnap(val)
                if v_.op == "comp" and v_.args[0] in ("list", "gen", "tuple", "generator"):
                    # L += [f(x) for x in xs]: one element per item of xs, in order
                    return [("repeat", v_.args[3], F(v_.args[1]), v_.args[2])]
                if v_.op == "ref":
                    o2 = self._heap_obj(v_)
                    items = list(o2.items) if o2 is not None and o2.exact and o2.kind in ("list", "tuple") else None
                else:
                    items = self.ex.iter_items(v_, None)
                if items is None:
                    raise Unsupported("list extended by %s" % show(val, 3))
                out = []
                for x in items:
                    out += F(x)
                return out
            if how == "base" and is_ba:
                return F(val)  # bytearray(X): starts as a copy of the byte string X
            raise Unsupported("container modified by %s" % (how,))

        if o.exact:
            out = []
            for x in o.items:
                out += one(x, "init")
            return _merge_consts(out)
        created = tuple(o.created_ctx)
        out: List[tuple] = []
        for val, ctx, how in o.items:
            extra = [f for f in (tuple(ctx)[len(created):] if tuple(ctx)[:len(created)] == created else tuple(f for f in ctx if f not in created)) if f[0] not in ("call", "with", "with_")]
            if not extra:
                out += one(val, how)
            elif len(extra) == 1 and extra[0][0] == "loop":
                lid = extra[0][1]
                lr = self.ex.loops.get(lid)
                if lr is None:
                    raise Unsupported("container filled in an unknown loop")
                body = one(val, how)
                if out and out[-1][0] == "repeat" and out[-1][1] == lid:
                    out[-1] = ("repeat", lid, out[-1][2] + body, out[-1][3])
                else:
                    out.append(("repeat", lid, body, lr.iter))
            else:
                raise Unsupported("container filled under a condition (%s)" % (extra[0][0],))
        return _merge_consts(out)

    def _list_items(self, ref: Term):
        snaps = getattr(self, "list_snapshots", {})
        o = snaps.get(ref.args[0])
        if o is not None and o.exact:
            return list(o.items)
        return None


def _intish(t: Term) -> bool:
    """the term certainly denotes an int (never a sequence): literals, len(), and arithmetic that sequences do not support"""
    t = unsnap(t)
    if is_const(t):
        return isinstance(cval(t), int) and not isinstance(cval(t), bool)
    if t.op == "len":
        return True
    if t.op == "un" and t.args[0] in ("USub", "UAdd", "Invert"):
        return _intish(t.args[1])
    if t.op == "bin":
        op, a, b = t.args
        if op in ("Mod", "FloorDiv", "Sub", "LShift", "RShift", "BitAnd", "BitOr", "BitXor", "Pow"):
            return _intish(a) and _intish(b) if op == "Mod" else (_intish(a) or _intish(b)) and not (is_const(unsnap(a)) and isinstance(cval(unsnap(a)), (str, bytes)))
        if op in ("Add", "Mult"):
            return _intish(a) and _intish(b)
    return False


def _merge_consts(segs: List[tuple]) -> List[tuple]:
    out: List[tuple] = []
    for s in segs:
        if s[0] == "const" and out and out[-1][0] == "const":
            out[-1] = ("const", out[-1][1] + s[1])
        else:
            out.append(s)
    return out


def show_segs(segs, depth=4) -> str:
    parts = []
    for s in segs:
        k = s[0]
        if k == "const":
            parts.append("Const(%s)" % s[1].hex())
        elif k == "int":
            parts.append("U%d%s(%s)" % (8 * s[1], "" if s[3] == "big" else s[3], show(s[2], depth)))
        elif k == "opaque":
            parts.append("B(%s)" % show(s[1], depth))
        elif k == "repeat":
            parts.append("Repeat[%s]" % show_segs(s[2], depth))
        elif k == "zeros":
            parts.append("Zeros(%s)" % show(s[1], depth))
        elif k == "mac":
            parts.append("Mac(%s)" % ", ".join(show(x, depth - 1) for x in s[1].args[1]))
        elif k == "alt":
            parts.append("Alt(%s|%s)" % (show_segs(s[2], depth), show_segs(s[3], depth)))
        else:
            parts.append("%s" % (s,))
    return " ".join(parts)


# =========================================================================== reader side
class RField:
    def __init__(self, reader, size: Term, result: Term, ev: Event):
        self.reader = reader
        self.size = size
        self.result = result
        self.ev = ev
        self.int_views: List[Term] = []  # int.from_bytes(result, 'big') terms
        self.order = "big"
        self.sub: Optional["Reader"] = None
        self.name: Optional[str] = None

    def __repr__(self):
        return "<field %s size=%s>" % (self.name or "?", show(self.size, 3))


class REof:
    def __init__(self, ev: Event, guard: Optional[Event], kind: str):
        self.ev = ev
        self.guard = guard
        self.kind = kind  # "ensure" (raises when not eof) | "test"


class RSeek:
    def __init__(self, ev: Event, pos: Term):
        self.ev = ev
        self.pos = pos


class RTell:
    def __init__(self, ev: Event, result: Term):
        self.ev = ev
        self.result = result


class RLoop:
    def __init__(self, lid: int):
        self.lid = lid
        self.items: List[Any] = []


class Reader:
    def __init__(self, term: Term):
        self.term = term
        self.raw: Optional[Term] = None  # bytes term it was constructed from
        self.source: Optional[Term] = None
        self.new_ev: Optional[Event] = None
        self.items: List[Any] = []  # nested by loops
        self.flat: List[Any] = []
        self.parent_field: Optional[RField] = None
        self.label = ""

    def fields(self) -> List[RField]:
        return [x for x in self.flat if isinstance(x, RField)]


def _loop_ids(ctx) -> Tuple[int, ...]:
    return tuple(f[1] for f in ctx if f[0] == "loop")


def extract_readers(ex, events: List[Event], reader_cls_names=("BytesReader",), stream_params=()) -> Dict[int, Reader]:
    """group read/tell/seek events by receiver; returns uid(term) -> Reader"""
    readers: Dict[int, Reader] = {}
    by_result: Dict[int, RField] = {}

    def get(term: Term) -> Reader:
        term = unsnap(term)
        r = readers.get(term.uid)
        if r is None:
            r = Reader(term)
            readers[term.uid] = r
        return r

    for e in events:
        if e.kind == "new" and e.d["cls"].name in reader_cls_names:
            r = get(e.d["result"])
            r.new_ev = e
            args = e.d["args"]
            r.raw = unsnap(args[0]) if args else e.d["kwargs"].get("raw")
            r.source = args[1] if len(args) > 1 else e.d["kwargs"].get("source")
        elif e.kind == "new" and any(getattr(c_, "name", None) in reader_cls_names for c_ in e.d["cls"].mro()[1:]):
            # a subclass of the reader (a helper class that did not exist on the pinned tree): the bytes it reads are what its constructor hands to the
            # base class constructor (the first argument of the super().__init__ / BytesReader.__init__ call made while it is being built)
            r = get(e.d["result"])
            r.new_ev = e
            base_inits = [c_ for c_ in events if c_.kind == "call" and c_.uid > e.uid and c_.d["callee"].name == "__init__" and c_.d["callee"].cls is not None
                          and c_.d["callee"].cls.name in reader_cls_names and c_.d.get("recv") is not None and unsnap(c_.d["recv"]) is unsnap(e.d["result"])]
            if base_inits:
                a_ = [x for x in base_inits[0].d["args"] if unsnap(x) is not unsnap(e.d["result"])]
                r.raw = unsnap(a_[0]) if a_ else base_inits[0].d["kwargs"].get("raw")
                r.source = a_[1] if len(a_) > 1 else base_inits[0].d["kwargs"].get("source")
    for e in events:
        if e.kind == "mcall" and e.d["name"] in ("read", "tell", "seek", "readline", "getvalue"):
            recv = unsnap(e.d["recv"])
            if recv.uid not in readers:
                # parameter readers / streams
                get(recv)
            r = readers[recv.uid]
            nm = e.d["name"]
            if nm == "read":
                size = e.d["args"][0] if e.d["args"] else NONE
                f = RField(r, size, e.d["result"], e)
                by_result[e.d["result"].uid] = f
                r.flat.append(f)
            elif nm == "tell":
                r.flat.append(RTell(e, e.d["result"]))
            elif nm == "seek":
                r.flat.append(RSeek(e, e.d["args"][0]))
    # a field read in one piece and decoded with struct.unpack is the sequence of its fixed-width integer fields
    for e in events:
        if e.kind == "extcall" and e.d["name"] == "struct.unpack" and e.d.get("fields"):
            f = by_result.get(unsnap(e.d["args"][1]).uid)
            if f is not None and is_const(f.size) and cval(f.size) == e.d["total"] and f in f.reader.flat:
                parts = []
                for n_, v in e.d["fields"]:
                    pf = RField(f.reader, C(n_), unsnap(v.args[1][0]), f.ev)
                    pf.int_views.append(v)
                    pf.order = e.d["order"]
                    by_result[pf.result.uid] = pf
                    parts.append(pf)
                k_ = f.reader.flat.index(f)
                f.reader.flat[k_:k_ + 1] = parts
    # a, b, ... = reader.read(k): k one-byte fields whose values are the items of the bytes object
    for e in events:
        if e.kind == "unpack" and isinstance(e.d.get("n"), int) and e.d["n"] >= 2:
            f = by_result.get(unsnap(e.d["value"]).uid)
            if f is not None and is_const(f.size) and cval(f.size) == e.d["n"] and f in f.reader.flat:
                parts = []
                for i_ in range(e.d["n"]):
                    pf = RField(f.reader, C(1), mk("slice", unsnap(e.d["value"]), C(i_), C(i_ + 1), NONE), f.ev)
                    pf.int_views.append(mk("sub", unsnap(e.d["value"]), C(i_)))
                    parts.append(pf)
                k_ = f.reader.flat.index(f)
                f.reader.flat[k_:k_ + 1] = parts
    # int views and eof guards
    for e in events:
        if e.kind == "extcall" and e.d["name"] == "int.from_bytes" and e.d["args"]:
            src = unsnap(e.d["args"][0])
            f = by_result.get(src.uid)
            sg = (e.d.get("kwargs") or {}).get("signed")
            if sg is None and len(e.d["args"]) > 2:
                sg = e.d["args"][2]
            if f is not None and sg is not None and not (is_const(sg) and not cval(sg)):
                f.signed = True  # two's complement reading: not the unsigned value of the field
            elif f is not None:
                f.int_views.append(e.d["result"])
                if len(e.d["args"]) > 1 and is_const(e.d["args"][1]):
                    f.order = cval(e.d["args"][1])
        if e.kind == "unpack" and e.d.get("n") == 1:
            # (x,) = reader.read(1): x is the value of the one byte read
            f = by_result.get(unsnap(e.d["value"]).uid)
            if f is not None and is_const(f.size) and cval(f.size) == 1:
                f.int_views.append(mk("sub", unsnap(e.d["value"]), C(0)))
        if e.kind == "subscript" and is_const(e.d.get("index")) and cval(e.d["index"]) == 0:
            f = by_result.get(unsnap(e.d["base"]).uid)
            if f is not None and is_const(f.size) and cval(f.size) == 1:
                f.int_views.append(mk("sub", unsnap(e.d["base"]), C(0)))
        if e.kind == "guard":
            # ensure_eof: guard whose condition compares a tell() of reader R with its length
            c = e.d["cond"]
            for r in readers.values():
                for it in r.flat:
                    if isinstance(it, RTell) and _mentions(c, it.result) and not getattr(it, "used", False):
                        it.guard = e
    # sub-readers
    for r in readers.values():
        if r.raw is not None:
            f = by_result.get(r.raw.uid)
            if f is not None:
                f.sub = r
                r.parent_field = f
    # nest by loops relative to the reader's creation context
    for r in readers.values():
        base = _loop_ids(r.new_ev.ctx) if r.new_ev is not None else ()
        root: List[Any] = []
        stack: List[Tuple[int, List[Any]]] = []
        for it in r.flat:
            loops = _loop_ids(it.ev.ctx)
            rel = [l for l in loops if l not in base]
            # unwind / wind
            cur = [s[0] for s in stack]
            k = 0
            while k < len(cur) and k < len(rel) and cur[k] == rel[k]:
                k += 1
            del stack[k:]
            for l in rel[k:]:
                lp = RLoop(l)
                (stack[-1][1] if stack else root).append(lp)
                stack.append((l, lp.items))
            (stack[-1][1] if stack else root).append(it)
        r.items = root
    return readers


def _mentions(t: Term, sub: Term) -> bool:
    from .terms import subterms

    return any(x is sub for x in subterms(t))


def show_reader(r: Reader, depth=0) -> str:
    def sh(items):
        parts = []
        for it in items:
            if isinstance(it, RField):
                sz = it.size
                w = "U%d" % (8 * cval(sz)) if (is_const(sz) and it.int_views and isinstance(cval(sz), int)) else "B(%s)" % show(sz, 3)
                if it.sub is not None:
                    w += "{" + sh(it.sub.items) + "}"
                parts.append(w)
            elif isinstance(it, RLoop):
                parts.append("Loop[" + sh(it.items) + "]")
            elif isinstance(it, RTell):
                parts.append("tell" + ("!" if getattr(it, "guard", None) is not None else ""))
            elif isinstance(it, RSeek):
                parts.append("seek(%s)" % show(it.pos, 3))
        return " ".join(parts)

    return sh(r.items)
