"""EMPT: three-valued emptiness analysis for a function that builds a list of byte blocks.

Abstract values
  bytes : "E" (empty) | "N" (non-empty) | "U" (unknown)
  tuple : tuple of abstract values
  list of bytes blocks : BList(closed, last)  -- `closed` = join of the emptiness of all elements except the last
                                                 (None when there is none), `last` = emptiness of the last element
                                                 (None when the list is empty)
  list of tuples       : TList(elem) with elem the join of everything appended
The analysed function is interpreted statement by statement over its syntax tree (closed statement subset), loops by
fixpoint iteration.  Branch conditions refine / prune:  `a == b` with emptiness E vs N is infeasible; `len(x) == 0`,
`not x`, `x` refine x.  Anything outside the subset raises Unsupported (ANALYSIS-INCOMPLETE, never a verdict).
"""
from __future__ import annotations

import ast
from typing import Any, Dict, List, Optional, Tuple

from .heap import Unsupported


def join(a, b):
    if a is None:
        return b
    if b is None:
        return a
    if isinstance(a, tuple) and isinstance(b, tuple) and len(a) == len(b):
        return tuple(join(x, y) for x, y in zip(a, b))
    if isinstance(a, BList) and isinstance(b, BList):
        return BList(join(a.closed, b.closed), join(a.last, b.last), a.maybe_empty_list or b.maybe_empty_list or (a.last is None) != (b.last is None))
    if isinstance(a, TList) and isinstance(b, TList):
        return TList(join(a.elem, b.elem))
    if a == b:
        return a
    if isinstance(a, str) and isinstance(b, str):
        return "U"
    return "?"


class BList:
    def __init__(self, closed=None, last=None, maybe_empty_list=False):
        self.closed = closed
        self.last = last
        self.maybe_empty_list = maybe_empty_list

    def __eq__(self, o):
        return isinstance(o, BList) and (self.closed, self.last, self.maybe_empty_list) == (o.closed, o.last, o.maybe_empty_list)

    def __repr__(self):
        return "BList(closed=%s,last=%s%s)" % (self.closed, self.last, ",maybe[]" if self.maybe_empty_list else "")


class TList:
    def __init__(self, elem=None):
        self.elem = elem

    def __eq__(self, o):
        return isinstance(o, TList) and self.elem == o.elem

    def __repr__(self):
        return "TList(%s)" % (self.elem,)


class Finding:
    def __init__(self, lineno, msg):
        self.lineno = lineno
        self.msg = msg


class Empt:
    def __init__(self, fn_node: ast.FunctionDef, callee_summaries: Dict[str, Any] = None):
        self.fn = fn_node
        self.findings: List[Finding] = []
        self.summ = callee_summaries or {}
        self.returns: List[Any] = []
        self.closed_events = 0
        self._loops: List[Dict[str, list]] = []

    # ---------------------------------------------------------------- expressions
    def ev(self, e: ast.AST, env: Dict[str, Any]):
        if isinstance(e, ast.Constant):
            if isinstance(e.value, (bytes, str)):
                return "E" if len(e.value) == 0 else "N"
            return "?"
        if isinstance(e, ast.Name):
            if e.id in env:
                return env[e.id]
            return "?"
        if isinstance(e, ast.Tuple):
            return tuple(self.ev(x, env) for x in e.elts)
        if isinstance(e, ast.List):
            if not e.elts:
                return BList(None, None)
            vals = [self.ev(x, env) for x in e.elts]
            if all(isinstance(v, str) and v in ("E", "N", "U") for v in vals):
                closed = None
                for v in vals[:-1]:
                    closed = join(closed, v)
                return BList(closed, vals[-1])
            return "?"
        if isinstance(e, ast.Call):
            f = e.func
            if isinstance(f, ast.Name) and f.id == "bytes":
                if not e.args:
                    return "E"
                a = e.args[0]
                if isinstance(a, ast.List):
                    return "N" if a.elts else "E"
                if isinstance(a, ast.BinOp) and isinstance(a.op, ast.Mult):
                    return "U"
                return "U"
            if isinstance(f, ast.Name) and f.id in self.summ:
                return self.summ[f.id]
            if isinstance(f, ast.Name) and f.id == "len":
                return "?"
            if isinstance(f, ast.Attribute) and f.attr == "to_bytes":
                return "N"
            if isinstance(f, ast.Attribute) and f.attr == "join":
                return "U"
            return "?"
        if isinstance(e, ast.BinOp) and isinstance(e.op, ast.Add):
            a, b = self.ev(e.left, env), self.ev(e.right, env)
            if a in ("E", "N", "U") and b in ("E", "N", "U"):
                if a == "N" or b == "N":
                    return "N"
                if a == "E" and b == "E":
                    return "E"
                return "U"
            return "?"
        if isinstance(e, ast.Subscript):
            base = self.ev(e.value, env)
            idx = e.slice
            if isinstance(base, BList):
                if isinstance(idx, ast.UnaryOp) and isinstance(idx.op, ast.USub) and isinstance(idx.operand, ast.Constant) and idx.operand.value == 1:
                    return base.last if base.last is not None else "?"
                return join(base.closed, base.last) or "?"
            if isinstance(base, tuple) and isinstance(idx, ast.Constant) and isinstance(idx.value, int) and -len(base) <= idx.value < len(base):
                return base[idx.value]
            if isinstance(base, TList):
                # an element of a list of records is described by the join of everything appended; a slice of the list is such a list again
                if isinstance(idx, ast.Slice):
                    return base
                return base.elem if base.elem is not None else "?"
            return "?"
        return "?"

    # ---------------------------------------------------------------- conditions: returns (env_true, env_false), None = infeasible
    def cond(self, c: ast.AST, env):
        if isinstance(c, ast.BoolOp):
            if isinstance(c.op, ast.And):
                t = env
                falses = []
                for v in c.values:
                    if t is None:
                        break
                    tv, fv = self.cond(v, t)
                    if fv is not None:
                        falses.append(fv)
                    t = tv
                f = None
                for x in falses:
                    f = self.join_env(f, x)
                return t, f
            else:
                f = env
                trues = []
                for v in c.values:
                    if f is None:
                        break
                    tv, fv = self.cond(v, f)
                    if tv is not None:
                        trues.append(tv)
                    f = fv
                t = None
                for x in trues:
                    t = self.join_env(t, x)
                return t, f
        if isinstance(c, ast.UnaryOp) and isinstance(c.op, ast.Not):
            t, f = self.cond(c.operand, env)
            return f, t
        if isinstance(c, ast.Compare) and len(c.ops) == 1:
            op = c.ops[0]
            l, r = c.left, c.comparators[0]
            if isinstance(op, (ast.Eq, ast.NotEq)):
                # len(x) == 0
                for a, b in ((l, r), (r, l)):
                    if isinstance(a, ast.Call) and isinstance(a.func, ast.Name) and a.func.id == "len" and isinstance(b, ast.Constant) and b.value == 0:
                        t, f = self.refine(a.args[0], env, "E"), self.refine(a.args[0], env, "N")
                        return (t, f) if isinstance(op, ast.Eq) else (f, t)
                va, vb = self.ev(l, env), self.ev(r, env)
                if va in ("E", "N", "U") and vb in ("E", "N", "U"):
                    if {va, vb} == {"E", "N"}:
                        return (None, env) if isinstance(op, ast.Eq) else (env, None)
                return env, env
            if isinstance(op, (ast.Gt, ast.GtE, ast.Lt, ast.LtE)):
                # len(x) > 0 / len(x) >= 1
                for a, b, flip in ((l, r, False), (r, l, True)):
                    if isinstance(a, ast.Call) and isinstance(a.func, ast.Name) and a.func.id == "len" and isinstance(b, ast.Constant) and isinstance(b.value, int):
                        o = type(op)
                        if flip:
                            o = {ast.Gt: ast.Lt, ast.Lt: ast.Gt, ast.GtE: ast.LtE, ast.LtE: ast.GtE}[o]
                        if (o is ast.Gt and b.value == 0) or (o is ast.GtE and b.value == 1):
                            return self.refine(a.args[0], env, "N"), self.refine(a.args[0], env, "E")
                        if (o is ast.LtE and b.value == 0) or (o is ast.Lt and b.value == 1):
                            return self.refine(a.args[0], env, "E"), self.refine(a.args[0], env, "N")
                return env, env
            return env, env
        # truthiness of a bytes value / list
        v = self.ev(c, env)
        if v in ("E", "N", "U"):
            return self.refine(c, env, "N"), self.refine(c, env, "E")
        if isinstance(v, BList):
            t = dict(env)
            f = dict(env)
            if isinstance(c, ast.Name):
                if v.last is None and not v.maybe_empty_list:
                    return None, env
                t[c.id] = BList(v.closed, v.last, False)
                f[c.id] = BList(None, None, False)
                if v.last is not None and not v.maybe_empty_list:
                    return env, None
            return t, f
        return env, env

    def refine(self, target: ast.AST, env, val: str):
        """env where `target` (a name or L[-1]) has emptiness val; None if contradictory"""
        cur = self.ev(target, env)
        if cur in ("E", "N") and cur != val:
            return None
        e2 = dict(env)
        if isinstance(target, ast.Name):
            e2[target.id] = val
        elif isinstance(target, ast.Subscript) and isinstance(target.value, ast.Name):
            base = env.get(target.value.id)
            idx = target.slice
            if isinstance(base, BList) and isinstance(idx, ast.UnaryOp) and isinstance(idx.op, ast.USub) and isinstance(idx.operand, ast.Constant) and idx.operand.value == 1:
                e2[target.value.id] = BList(base.closed, val, base.maybe_empty_list)
        return e2

    def join_env(self, a, b):
        if a is None:
            return b
        if b is None:
            return a
        out = {}
        for k in set(a) | set(b):
            if k in a and k in b:
                out[k] = join(a[k], b[k])
            else:
                out[k] = "?"
        return out

    # ---------------------------------------------------------------- statements
    def block(self, stmts, env):
        for s in stmts:
            if env is None:
                return None
            env = self.stmt(s, env)
        return env

    def assign(self, tgt, val, env, node):
        if isinstance(tgt, ast.Name):
            env[tgt.id] = val
        elif isinstance(tgt, (ast.Tuple, ast.List)):
            if isinstance(val, tuple) and len(val) == len(tgt.elts):
                for t, v in zip(tgt.elts, val):
                    self.assign(t, v, env, node)
            else:
                for t in tgt.elts:
                    self.assign(t, "?", env, node)
        elif isinstance(tgt, ast.Subscript) and isinstance(tgt.value, ast.Name):
            base = env.get(tgt.value.id)
            idx = tgt.slice
            if isinstance(base, BList) and isinstance(idx, ast.UnaryOp) and isinstance(idx.op, ast.USub) and isinstance(idx.operand, ast.Constant) and idx.operand.value == 1:
                env[tgt.value.id] = BList(base.closed, val if val in ("E", "N", "U") else "U", base.maybe_empty_list)
            else:
                raise Unsupported("store to list element other than [-1] at line %d" % node.lineno)
        else:
            raise Unsupported("assignment target at line %d" % node.lineno)

    def stmt(self, s, env):
        env = dict(env)
        if isinstance(s, ast.Expr):
            if isinstance(s.value, ast.Constant):
                return env
            c = s.value
            if isinstance(c, ast.Call) and isinstance(c.func, ast.Attribute) and isinstance(c.func.value, ast.Name):
                nm, meth = c.func.value.id, c.func.attr
                cur = env.get(nm)
                if meth == "append" and len(c.args) == 1:
                    v = self.ev(c.args[0], env)
                    if isinstance(cur, BList):
                        if cur.last is not None:
                            # the previous last element becomes a closed (non-last) block
                            self.closed_events += 1
                            if cur.last != "N":
                                self.findings.append(Finding(s.lineno, "a new block is appended while the current last block may be empty (%s): an empty block is left before the end of the list" % ("empty" if cur.last == "E" else "emptiness unknown")))
                        env[nm] = BList(join(cur.closed, cur.last) if cur.last is not None else cur.closed, v if v in ("E", "N", "U") else "U", False)
                        return env
                    if isinstance(cur, TList) or cur is None or cur == "?":
                        env[nm] = TList(join(cur.elem if isinstance(cur, TList) else None, v))
                        return env
                if meth == "pop" and isinstance(cur, BList) and not c.args:
                    if cur.closed is None:
                        env[nm] = BList(None, None, False)
                    else:
                        # the new last element is one of the closed ones
                        env[nm] = BList(cur.closed, cur.closed, True)
                    return env
                if meth in ("sort",):
                    return env
            return env
        if isinstance(s, ast.Assign):
            v = self.ev(s.value, env)
            if isinstance(s.value, ast.List) and not s.value.elts:
                v = TList(None)
            for t in s.targets:
                self.assign(t, v, env, s)
            return env
        if isinstance(s, ast.AnnAssign):
            if s.value is not None:
                self.assign(s.target, self.ev(s.value, env), env, s)
            return env
        if isinstance(s, ast.AugAssign):
            if not isinstance(s.op, ast.Add):
                raise Unsupported("augmented assignment at line %d" % s.lineno)
            cur = self.ev(s.target if not isinstance(s.target, ast.Name) else ast.Name(id=s.target.id, ctx=ast.Load()), env)
            rhs = self.ev(s.value, env)
            if cur in ("E", "N", "U") and rhs in ("E", "N", "U"):
                new = "N" if "N" in (cur, rhs) else ("E" if cur == rhs == "E" else "U")
            else:
                new = "?"
            self.assign(s.target, new, env, s)
            return env
        if isinstance(s, ast.If):
            t, f = self.cond(s.test, env)
            rt = self.block(s.body, t) if t is not None else None
            rf = self.block(s.orelse, f) if f is not None else None
            return self.join_env(rt, rf)
        if isinstance(s, ast.For):
            it = self.ev(s.iter, env)
            elem = it.elem if isinstance(it, TList) else "?"
            if isinstance(it, TList) and it.elem is None:
                return env  # empty list: no iteration
            # disjunctive fixpoint at the loop head: each distinct abstract state is explored on its own (keeps the
            # relation between variables that a join would lose, e.g. "last block empty <=> no preface seen yet")
            seen_states = {}
            work = [env]
            exit_env = env
            while work:
                st = work.pop()
                key = repr(sorted((k, repr(v)) for k, v in st.items()))
                if key in seen_states:
                    continue
                if len(seen_states) > 24:
                    raise Unsupported("too many abstract loop states at line %d" % s.lineno)
                seen_states[key] = st
                body_env = dict(st)
                self.assign(s.target, elem if elem is not None else "?", body_env, s)
                self._loops.append({"continue": [], "break": []})
                out = self.block(s.body, body_env)
                jumps = self._loops.pop()
                # the end of the body and every `continue` lead back to the loop head (and, the iterable being finite, to the exit); `break` only to the exit
                for o in ([out] if out is not None else []) + jumps["continue"]:
                    o = {k: v for k, v in o.items()}
                    exit_env = self.join_env(exit_env, o)
                    work.append(o)
                for o in jumps["break"]:
                    exit_env = self.join_env(exit_env, dict(o))
            cur = exit_env
            # dedupe findings
            seen, uniq = set(), []
            for f in self.findings:
                if (f.lineno, f.msg) not in seen:
                    seen.add((f.lineno, f.msg))
                    uniq.append(f)
            self.findings = uniq
            return cur
        if isinstance(s, ast.Return):
            self.returns.append((s.lineno, self.ev(s.value, env) if s.value is not None else None))
            return None
        if isinstance(s, ast.Pass):
            return env
        if isinstance(s, (ast.Continue, ast.Break)) and self._loops:
            self._loops[-1]["continue" if isinstance(s, ast.Continue) else "break"].append(env)
            return None
        if isinstance(s, ast.Match):
            from .stmts import _desugar_match

            return self.stmt(_desugar_match(s), env)
        raise Unsupported("statement %s at line %d in emptiness analysis" % (type(s).__name__, s.lineno))

    def run(self, params: Dict[str, Any] = None):
        env = dict(params or {})
        body = [s for s in self.fn.body if not (isinstance(s, ast.Expr) and isinstance(s.value, ast.Constant))]
        self.block(body, env)
        return self
