"""Matching of extracted reader grammars / writer layouts against the documented layout table (spec/layout.json)."""
from __future__ import annotations

from typing import Any, Dict, List, Optional, Tuple

from .guard import raise_rel, rel, show_rel, unsnap
from .layout import REof, RField, RLoop, RSeek, RTell, Reader, show_segs
from .terms import C, Term, cval, is_const, mk, show, subterms

WIDTHS = {"U8": 1, "U16": 2, "U32": 4}


class Mismatch(Exception):
    def __init__(self, msg, where=""):
        super().__init__(msg)
        self.msg = msg
        self.where = where


class Binding:
    def __init__(self):
        self.fields: Dict[str, List[Any]] = {}  # name -> [RField...] (reader) or [segment...] (writer)
        self.loops: Dict[str, int] = {}  # record name -> loop id
        self.ends: Dict[str, Any] = {}  # region name -> "ensure"|"loop-exit"
        self.notes: List[str] = []
        self.checked: List[Tuple[str, str, str]] = []  # (rule-suffix, construct, where)

    def bind(self, name, obj):
        self.fields.setdefault(name, []).append(obj)

    def field(self, name) -> Any:
        return self.fields[name][0]


def _where(ev) -> str:
    return ev.where if ev is not None else ""


# ================================================================================================= reader
def classify_tell(ex, rd: Reader, it: RTell) -> str:
    """'eof' when the tell() result is compared with the reader's own length, else 'pos'"""
    g = getattr(it, "guard", None)
    if g is None:
        return "test"
    r = raise_rel(g)
    for a in _atoms(r):
        if a[1] in ("Eq", "NotEq") and a[3] is not None:
            x, y = a[2], a[3]
            other = y if x is it.result else (x if y is it.result else None)
            if other is not None and _is_length_of(ex, rd, other):
                return "eof"
    return "pos"


def _atoms(r):
    from .guard import atoms

    return atoms(r)


def _is_length_of(ex, rd: Reader, t: Term) -> bool:
    t = unsnap(t)
    if t.op == "len" and rd.raw is not None and unsnap(t.args[0]) is rd.raw:
        return True
    if t.op == "attr" and t.args[1] == "length" and unsnap(t.args[0]) is rd.term:
        return True
    return False


def _eof_test_term(ex, rd: Reader, cond: Term) -> Optional[bool]:
    """is `cond` 'reader at eof' (True) / 'not at eof' (False)?"""
    r = rel(cond, True)
    if r[0] != "rel" or r[3] is None:
        return None
    for x, y in ((r[2], r[3]), (r[3], r[2])):
        if x.op == "call" and isinstance(x.args[0], Term) and x.args[0].op == "meth" and x.args[0].args[1] == "tell" and unsnap(x.args[0].args[0]) is rd.term and _is_length_of(ex, rd, y):
            return True if r[1] == "Eq" else (False if r[1] == "NotEq" else None)
    return None


def _countdown_to_eof(ex, rd: Reader, loop, lr) -> bool:
    """`while left != 0` (or `while left:`) where `left` starts as the length of the region the reader wraps and every iteration takes off exactly what that iteration
    reads from the reader: the same test as `not reader.eof()`, kept in an integer (reads are exact: a short read raises, so the counter never passes zero)"""
    from .length import lin

    if lr.cond is None:
        return False
    r = rel(lr.cond, True)
    x = None
    if r[0] == "rel" and r[1] == "NotEq" and r[3] is not None:
        for a_, b_ in ((r[2], r[3]), (r[3], r[2])):
            if is_const(unsnap(b_)) and cval(unsnap(b_)) == 0 and not isinstance(cval(unsnap(b_)), bool):
                x = unsnap(a_)
    elif r[0] == "rel" and r[1] == "Truthy":
        x = unsnap(r[2])
    if x is None or x.op != "loopvar" or x.args[0] != loop.lid:
        return False
    nm = x.args[1]
    init, nxt = lr.init.get(nm), lr.next.get(nm)
    if init is None or nxt is None:
        return False
    li = lin(init)
    region_len = None
    if rd.parent_field is not None:
        region_len = lin(rd.parent_field.size)
    if li is None or not (_is_length_of(ex, rd, init) or (region_len is not None and li == region_len)):
        return False
    # what one iteration consumes: every read of this reader directly in the loop body (a read in a nested loop or under a test would make the amount vary)
    total = {1: 0}
    for it in loop.items:
        if isinstance(it, RLoop):
            return False
        if isinstance(it, RField):
            if any(f[0] == "if" and f[1] is not lr.cond for f in it.ev.ctx[len(lr_ctx(ex, loop, it)):]):
                return False
            ls = lin(it.size)
            if ls is None:
                return False
            for k, v in ls.items():
                total[k] = total.get(k, 0) + v
    ln, lx = lin(nxt), lin(x)
    if ln is None or lx is None:
        return False
    want = dict(lx)
    for k, v in total.items():
        want[k] = want.get(k, 0) - v
    norm = lambda d: {k: v for k, v in d.items() if v != 0}
    return norm(ln) == norm(want)


def lr_ctx(ex, loop, it):
    """the context frames of a read event up to and including the frame of `loop`"""
    out = []
    for f in it.ev.ctx:
        out.append(f)
        if f[0] == "loop" and f[1] == loop.lid:
            return out
    return out


def _int_of(f: RField, t: Term, ex=None) -> bool:
    """does term t denote the integer value of field f (directly, through elem lifting, or through a loop variable)?"""
    t = unsnap(t)
    while t.op == "elem":
        t = unsnap(t.args[0])
    return any(t is v for v in f.int_views)


def _size_names(ex, size: Term, fields: List[RField]) -> bool:
    """size term denotes the integer value of one of `fields` (possibly via the loop variable that carries it)"""
    size = unsnap(size)
    while size.op == "elem":
        size = unsnap(size.args[0])
    if any(_int_of(f, size) for f in fields):
        return True
    if size.op == "loopvar":
        lr = ex.loops.get(size.args[0])
        if lr is None:
            return False
        nm = size.args[1]
        init, nxt = lr.init.get(nm), lr.next.get(nm)
        if init is None or nxt is None:
            return False
        return any(_int_of(f, init) for f in fields) and any(_int_of(f, nxt) for f in fields)
    return False


def match_reader(ex, spec: List[dict], rd: Reader, b: Optional[Binding] = None, region="file") -> Binding:
    b = b or Binding()
    _match_seq(ex, spec, list(rd.items), rd, b, region)
    return b


def _filter(ex, rd, items):
    """drop pure position tests that are loop conditions; keep eof-guards and position guards"""
    out = []
    for it in items:
        if isinstance(it, RTell):
            k = classify_tell(ex, rd, it)
            it.kind = k
            if k == "test":
                continue
        out.append(it)
    return out


def _match_seq(ex, spec, items, rd: Reader, b: Binding, region: str):
    items = _filter(ex, rd, items)
    i = 0
    prev_rep_eof = False

    def cur():
        return items[i] if i < len(items) else None

    def skip_pos():
        nonlocal i
        while i < len(items) and isinstance(items[i], RTell) and items[i].kind == "pos":
            i += 1

    for node in spec:
        skip_pos()
        if "f" in node:
            it = cur()
            if not isinstance(it, RField):
                raise Mismatch("reader: field '%s' of %s is not read (found %s)" % (node["f"], region, _desc(it)), _where(getattr(it, "ev", None)) if it else _where(rd.new_ev))
            _check_field(ex, node, it, b, region)
            b.bind(node["f"], it)
            it.name = node["f"]
            i += 1
            if "sub" in node:
                if it.sub is None:
                    raise Mismatch("reader: region '%s' is not parsed through a bounded sub-reader (length field would not delimit it)" % node["f"], it.ev.where)
                _match_seq(ex, node["sub"], list(it.sub.items), it.sub, b, node["f"])
            prev_rep_eof = False
        elif "rep_sentinel" in node:
            rs = node["rep_sentinel"]
            w = WIDTHS[rs["t"]]
            pre = cur()
            loop = items[i + 1] if i + 1 < len(items) else None
            if not (isinstance(pre, RField) and isinstance(loop, RLoop)):
                raise Mismatch("reader: %s is not parsed as length-prefixed records closed by a sentinel (pre-read + loop idiom not found)" % region, _where(getattr(pre, "ev", None)) if pre else "")
            if not (is_const(pre.size) and cval(pre.size) == w and pre.int_views):
                raise Mismatch("reader: record length of %s is not a %d-byte integer" % (region, w), pre.ev.where)
            litems = _filter(ex, rd, loop.items)
            litems = [x for x in litems if not (isinstance(x, RTell) and x.kind == "pos")]
            if len(litems) != 2 or not all(isinstance(x, RField) for x in litems):
                raise Mismatch("reader: record loop of %s must read exactly one record and the next length (found %d reads)" % (region, len(litems)), loop.items[0].ev.where if loop.items else "")
            rec, nxt = litems
            if not (is_const(nxt.size) and cval(nxt.size) == w and nxt.int_views):
                raise Mismatch("reader: next record length of %s is not a %d-byte integer" % (region, w), nxt.ev.where)
            lr = ex.loops[loop.lid]
            # loop condition: <len var> != sentinel, var carried from pre-read to trailing read
            ok = False
            if lr.cond is not None:
                r = rel(lr.cond, True)
                cands = []
                if r[0] == "rel" and r[1] == "NotEq":
                    cands = [(x, y) for x, y in ((r[2], r[3]), (r[3], r[2])) if is_const(y) and cval(y) == rs["sentinel"] and not isinstance(cval(y), bool)]
                elif r[0] == "rel" and r[1] == "Truthy" and rs["sentinel"] == 0:
                    # `while n:` on an int is `while n != 0`
                    cands = [(unsnap(r[2]), C(0))]
                for x, y in cands:
                    if x.op == "loopvar" and x.args[0] == loop.lid:
                        nm = x.args[1]
                        if _int_of(pre, lr.init.get(nm, C(None))) and _int_of(nxt, lr.next.get(nm, C(None))):
                            ok = True
                            lenvar = x
            if not ok:
                raise Mismatch("reader: record loop of %s does not run exactly while the length byte read is != %d" % (region, rs["sentinel"]), pre.ev.where)
            if unsnap(rec.size) is not lenvar:
                raise Mismatch("reader: record of %s is not read with the length byte just tested (size %s)" % (region, show(rec.size, 3)), rec.ev.where)
            b.bind(rs["len"], pre)
            b.bind(rs["len"], nxt)
            b.bind(rs["record"], rec)
            b.loops[rs["record"]] = loop.lid
            rec.name = rs["record"]
            if rec.sub is None:
                raise Mismatch("reader: record '%s' is not parsed through a bounded sub-reader" % rs["record"], rec.ev.where)
            _match_seq(ex, rs["body"], list(rec.sub.items), rec.sub, b, rs["record"])
            i += 2
            prev_rep_eof = False
        elif "rep_eof" in node:
            loop = cur()
            if not isinstance(loop, RLoop):
                raise Mismatch("reader: repeated records of %s are not parsed by a loop" % region, _where(getattr(loop, "ev", None)) if loop else _where(rd.new_ev))
            lr = ex.loops[loop.lid]
            at_eof = _eof_test_term(ex, rd, lr.cond) if lr.cond is not None else None
            if at_eof is not False and _countdown_to_eof(ex, rd, loop, lr):
                at_eof = False
            if at_eof is not False:
                raise Mismatch("reader: loop over %s does not run exactly until the region is exhausted (condition %s)" % (region, show(lr.cond, 4) if lr.cond is not None else "?"), loop.items[0].ev.where if loop.items else "")
            if lr.breaks:
                raise Mismatch("reader: loop over %s can stop before the region is exhausted (break)" % region, "")
            sub_b = _match_seq(ex, node["rep_eof"], list(loop.items), rd, b, region + "[]")
            b.loops[region + "[]"] = loop.lid
            i += 1
            prev_rep_eof = True
            continue
        elif "rep_each" in node:
            loop = cur()
            if not isinstance(loop, RLoop):
                raise Mismatch("reader: payloads are not read by a loop over the directory entries", "")
            lr = ex.loops[loop.lid]
            if lr.kind not in ("for", "comp"):  # a comprehension visits the entries in order just like a for statement
                raise Mismatch("reader: payload loop is not a for-loop over the directory entries", "")
            if not _iter_is_entries(ex, lr, b, node["rep_each"]):
                raise Mismatch("reader: payload loop does not iterate the parsed directory entries in directory order (iterates %s)" % show(lr.iter, 4), loop.items[0].ev.where if loop.items else "")
            _match_seq(ex, node["body"], list(loop.items), rd, b, "payloads")
            b.loops["payloads"] = loop.lid
            i += 1
            prev_rep_eof = False
        elif "end" in node:
            it = cur()
            if isinstance(it, RTell) and it.kind == "eof":
                b.ends[region] = ("ensure", it)
                i += 1
            elif prev_rep_eof:
                b.ends[region] = ("loop-exit", None)
            else:
                raise Mismatch("reader: region '%s' may end with unread bytes (no end-of-data check after its last field)" % region, _where(getattr(it, "ev", None)) if it else _where(rd.new_ev))
            # further redundant eof checks are fine
            while i < len(items) and isinstance(items[i], RTell) and items[i].kind == "eof":
                i += 1
            prev_rep_eof = False
        else:
            raise Mismatch("spec node not understood: %r" % (node,))
    skip_pos()
    while i < len(items) and isinstance(items[i], RTell):
        i += 1
    if i < len(items):
        it = items[i]
        raise Mismatch("reader: %s reads data the documented layout does not have (%s)" % (region, _desc(it)), _where(getattr(it, "ev", None)) if not isinstance(it, RLoop) else "")
    return b


def _iter_is_entries(ex, lr, b: Binding, record: str) -> bool:
    """the for-loop iterates a list that was filled, one element per iteration and in order, by the record loop"""
    it = unsnap(lr.iter) if lr.iter is not None else None
    if it is None or it.op != "ref":
        return False
    rec_loop = b.loops.get(record)
    producers = [e for e in ex.trace if e.kind == "mutate" and unsnap(e.d["obj"]) is it]
    if not producers:
        return False
    for e in producers:
        if e.d["how"] != "append":
            return False
        loops = [f[1] for f in e.ctx if f[0] == "loop"]
        if not loops or loops[-1] != rec_loop:
            return False
        # unconditional within the iteration (only terminating guards before it)
        inner = [f for f in e.ctx[list(e.ctx).index(("loop", rec_loop)) + 1:] if f[0] in ("if", "loop", "try", "except")]
        lrr = ex.loops[rec_loop]
        inner = [f for f in inner if not (f[0] == "if" and lrr.cond is not None and f[1] is lrr.cond)]
        if inner:
            return False
    return len(producers) == 1


def _check_field(ex, node, it: RField, b: Binding, region: str):
    t = node["t"]
    if t in WIDTHS:
        w = WIDTHS[t]
        if not (is_const(it.size) and cval(it.size) == w):
            raise Mismatch("reader: field '%s' is read with size %s, documented width is %d bytes" % (node["f"], show(it.size, 3), w), it.ev.where)
        if not it.int_views:
            raise Mismatch("reader: field '%s' is not interpreted as an integer" % node["f"], it.ev.where)
        if it.order != "big":
            raise Mismatch("reader: field '%s' is decoded %s-endian, documented big-endian" % (node["f"], it.order), it.ev.where)
    else:
        ln = node.get("len")
        if isinstance(ln, int):
            if not (is_const(it.size) and cval(it.size) == ln):
                raise Mismatch("reader: field '%s' is read with size %s, documented %d bytes" % (node["f"], show(it.size, 3), ln), it.ev.where)
        else:
            srcs = b.fields.get(ln, [])
            if not srcs or not _size_names(ex, it.size, srcs):
                raise Mismatch("reader: field '%s' is read with size %s, documented length is the value of field '%s'" % (node["f"], show(it.size, 4), ln), it.ev.where)


def _desc(it) -> str:
    if it is None:
        return "end of parsing"
    if isinstance(it, RField):
        return "read(%s)" % show(it.size, 3)
    if isinstance(it, RLoop):
        return "loop"
    if isinstance(it, RTell):
        return "position test"
    if isinstance(it, RSeek):
        return "seek"
    return type(it).__name__


# ================================================================================================= writer
def match_writer(ex, writer, spec: List[dict], segs: List[tuple]) -> Binding:
    b = Binding()
    flat = _flatten_spec(spec)
    rest = _match_wseq(ex, writer, flat, list(segs), b, "file")
    if rest:
        raise Mismatch("writer: emits bytes after the documented end of the file (%s)" % show_segs(rest, 3))
    return b


def _flatten_spec(spec):
    """writer view: sub-regions are emitted inline; 'end' nodes carry no bytes"""
    out = []
    for n in spec:
        if "f" in n and "sub" in n:
            out.append({"region_start": n["f"], "len": n["len"]})
            out += _flatten_spec(n["sub"])
            out.append({"region_end": n["f"]})
        elif "end" in n:
            continue
        else:
            out.append(n)
    return out


def _match_wseq(ex, writer, spec, segs, b: Binding, region):
    i = 0
    region_starts: Dict[str, int] = {}
    consumed: List[tuple] = []
    for node in spec:
        if "region_start" in node:
            region_starts[node["region_start"]] = len(consumed)
            continue
        if "region_end" in node:
            nm = node["region_end"]
            b.bind(nm, ("region", consumed[region_starts[nm]:]))
            continue
        if "f" in node:
            if i >= len(segs):
                raise Mismatch("writer: field '%s' of %s is not emitted" % (node["f"], region))
            s = segs[i]
            _check_wfield(node, s, region)
            b.bind(node["f"], s)
            consumed.append(s)
            i += 1
        elif "rep_sentinel" in node:
            rs = node["rep_sentinel"]
            if i >= len(segs) or segs[i][0] != "repeat":
                raise Mismatch("writer: %s is not emitted as a sequence of records (found %s)" % (region, show_segs(segs[i:i + 1], 3)))
            rep = segs[i]
            body = list(rep[2])
            w = WIDTHS[rs["t"]]
            if not body or body[0][0] != "int" or body[0][1] != w or body[0][3] != "big":
                raise Mismatch("writer: records of %s do not start with a %d-byte big-endian length" % (region, w))
            b.bind(rs["len"], body[0])
            rec_segs = body[1:]
            sub = _flatten_spec(rs["body"])
            rest = _match_wseq(ex, writer, sub, rec_segs, b, rs["record"])
            if rest:
                raise Mismatch("writer: record '%s' has bytes after its documented last field (%s)" % (rs["record"], show_segs(rest, 3)))
            b.bind(rs["record"], ("region", rec_segs))
            b.loops[rs["record"]] = rep[1]
            b.bind(rs["record"] + "#iter", rep[3])
            consumed.append(rep)
            i += 1
            # sentinel
            sent = bytes([rs["sentinel"]]) * w
            if i >= len(segs) or segs[i][0] != "const" or not segs[i][1].startswith(sent):
                raise Mismatch("writer: %s is not closed by the sentinel %s" % (region, sent.hex()))
            if segs[i][1] != sent:
                segs[i] = ("const", segs[i][1][len(sent):])
                consumed.append(("const", sent))
            else:
                consumed.append(segs[i])
                i += 1
            b.bind(rs["len"] + "#sentinel", ("const", sent))
        elif "rep_eof" in node:
            if i < len(segs) and segs[i][0] == "repeat":
                rep = segs[i]
                rest = _match_wseq(ex, writer, _flatten_spec(node["rep_eof"]), list(rep[2]), b, region + "[]")
                if rest:
                    raise Mismatch("writer: repeated record of %s has undocumented trailing bytes" % region)
                b.loops[region + "[]"] = rep[1]
                b.bind(region + "[]#iter", rep[3])
                consumed.append(rep)
                i += 1
            else:
                raise Mismatch("writer: repeated records of %s are not emitted by a loop (found %s)" % (region, show_segs(segs[i:i + 1], 3)))
        elif "rep_each" in node:
            if i < len(segs) and segs[i][0] == "repeat":
                rep = segs[i]
                rest = _match_wseq(ex, writer, _flatten_spec(node["body"]), list(rep[2]), b, "payloads")
                if rest:
                    raise Mismatch("writer: payload area has undocumented bytes per entry")
                b.loops["payloads"] = rep[1]
                b.bind("payloads#iter", rep[3])
                consumed.append(rep)
                i += 1
            else:
                raise Mismatch("writer: payloads are not emitted by one repetition over the components (found %s)" % show_segs(segs[i:i + 1], 3))
        else:
            raise Mismatch("spec node not understood: %r" % (node,))
    return segs[i:]


def _check_wfield(node, s, region):
    t = node["t"]
    if t in WIDTHS:
        if s[0] != "int":
            raise Mismatch("writer: field '%s' of %s is not emitted as an integer (found %s)" % (node["f"], region, show_segs([s], 3)))
        if s[1] != WIDTHS[t]:
            raise Mismatch("writer: field '%s' is emitted with %d bytes, documented %d" % (node["f"], s[1], WIDTHS[t]))
        if s[3] != "big":
            raise Mismatch("writer: field '%s' is emitted %s-endian, documented big-endian" % (node["f"], s[3]))
    else:
        if node.get("mac"):
            if s[0] != "mac":
                raise Mismatch("writer: field '%s' is not a MAC (found %s)" % (node["f"], show_segs([s], 3)))
        elif s[0] not in ("opaque",):
            raise Mismatch("writer: field '%s' of %s is not a byte string (found %s)" % (node["f"], region, show_segs([s], 3)))
