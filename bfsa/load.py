"""LOAD/RESOLVE: parse /repo's current working tree, build module / class / function tables,
prune interpreter-guard arms statically, fold constants.

Nothing from /repo is imported or executed: everything is computed from `ast`.
"""
from __future__ import annotations

import ast
import hashlib
import os
import re
from typing import Any, Dict, List, Optional, Tuple


class AnalysisError(Exception):
    """Anchor missing / unsupported construct / internal problem: exit 2, never a VIOLATION."""


class NotConst(Exception):
    pass


REPO = os.environ.get("BFSA_REPO", "/repo")

# packages in scope: (directory relative to repo, python package name)
PACKAGES = [
    ("bec2format", "bec2format"),
    ("appnotes/register_crypto_plugin", "register_crypto_plugin"),
]

PY2_ONLY_NAMES = {"xrange", "unicode", "buffer", "long", "basestring", "unichr", "raw_input"}
# modules whose import succeeds in the analysed configuration (CPython 3, no gmpy)
ABSENT_MODULES = {"gmpy2", "gmpy", "platform_does_not_exist"}
PY_VERSION = (3, 12, 1)


class FuncInfo:
    def __init__(self, module: "ModuleInfo", node: ast.AST, qualname: str, cls: Optional["ClassInfo"], parent: Optional["FuncInfo"] = None):
        self.module = module
        self.node = node
        self.qualname = qualname  # e.g. bec2format.bf3file.Bf3File.read_file
        self.cls = cls
        self.parent = parent
        self.name = getattr(node, "name", "<lambda>")
        self.kind = "function"  # function | classmethod | staticmethod | property
        self.decorators: List[str] = []
        if isinstance(node, (ast.FunctionDef, ast.AsyncFunctionDef)):
            for d in node.decorator_list:
                dn = _dotted(d)
                self.decorators.append(dn or ast.dump(d))
                if dn in ("classmethod", "staticmethod", "property"):
                    self.kind = dn
                elif dn and dn.endswith(".setter"):
                    self.kind = "setter"
        self.is_generator = any(isinstance(n, (ast.Yield, ast.YieldFrom)) for n in _walk_own(node))

    @property
    def short(self) -> str:
        return self.qualname.split(".", 1)[1] if "." in self.qualname else self.qualname

    def __repr__(self):
        return "<func %s>" % self.qualname

    @property
    def params(self) -> List[str]:
        a = self.node.args
        return [x.arg for x in a.posonlyargs + a.args]

    @property
    def file(self) -> str:
        return self.module.relpath

    @property
    def lineno(self) -> int:
        return getattr(self.node, "lineno", 0)


def _walk_own(node):
    """walk a function body without descending into nested defs/lambdas/classes"""
    stack = list(ast.iter_child_nodes(node))
    while stack:
        n = stack.pop()
        yield n
        if isinstance(n, (ast.FunctionDef, ast.AsyncFunctionDef, ast.Lambda, ast.ClassDef)):
            continue
        stack.extend(ast.iter_child_nodes(n))


def _dotted(node) -> Optional[str]:
    if isinstance(node, ast.Name):
        return node.id
    if isinstance(node, ast.Attribute):
        b = _dotted(node.value)
        return None if b is None else b + "." + node.attr
    return None


class ClassInfo:
    def __init__(self, module: "ModuleInfo", node: ast.ClassDef, qualname: str):
        self.module = module
        self.node = node
        self.qualname = qualname
        self.name = node.name
        self.base_exprs = node.bases
        self.bases: List[Any] = []  # ClassInfo or str (external name)
        self.methods: Dict[str, FuncInfo] = {}
        self.attrs: Dict[str, ast.AST] = {}  # class-level assignments: name -> value expr (last wins)
        self.injected: Dict[str, Any] = {}  # name -> FuncInfo installed by `Cls.name = func` at module level
        self._mro: Optional[List[Any]] = None

    def __repr__(self):
        return "<class %s>" % self.qualname

    def mro(self) -> List[Any]:
        if self._mro is None:
            self._mro = _c3(self)
        return self._mro

    def lookup(self, name: str):
        """-> (owner ClassInfo, FuncInfo | ast expr) or None"""
        for c in self.mro():
            if not isinstance(c, ClassInfo):
                continue
            # a private name as the compiler mangles it (self.__step inside class K is K._K__step): the member is defined under its source name
            pre_ = "_" + c.name.lstrip("_") + "__"
            if name.startswith(pre_) and not name.endswith("__"):
                src_ = "__" + name[len(pre_):]
                if src_ in c.methods:
                    return c, c.methods[src_]
            if name in c.injected:
                return c, c.injected[name]
            if name in c.methods:
                return c, c.methods[name]
            if name in c.attrs:
                v = c.attrs[name]
                # `name = staticmethod(f)` / `name = f` in the class body with f a module-level function: the method is that function
                inner = v.args[0] if isinstance(v, ast.Call) and isinstance(v.func, ast.Name) and v.func.id in ("staticmethod", "classmethod") and len(v.args) == 1 and not v.keywords else v
                if isinstance(inner, ast.Name) and getattr(c, "module", None) is not None:
                    sym = c.module.symbols.get(inner.id)
                    if sym is not None and sym[0] == "func" and isinstance(sym[1], FuncInfo) and sym[1].cls is None:
                        if isinstance(v, ast.Call):
                            sym[1].alias_kind = v.func.id
                        return c, sym[1]
                return c, v
        return None

    def is_subclass_of(self, other) -> bool:
        for c in self.mro():
            if c is other:
                return True
            if isinstance(other, str) and (c == other or (isinstance(c, ClassInfo) and c.name == other)):
                return True
        return False

    def external_bases(self) -> List[str]:
        return [c for c in self.mro() if isinstance(c, str)]


def _c3(cls: ClassInfo) -> List[Any]:
    def merge(seqs):
        res = []
        seqs = [list(s) for s in seqs if s]
        while seqs:
            for s in seqs:
                head = s[0]
                if not any(head in t[1:] for t in seqs):
                    break
            else:
                # inconsistent; fall back to DFS
                head = seqs[0][0]
            res.append(head)
            seqs = [[x for x in s if x is not head and x != head] if s[0] is head or s[0] == head else [x for x in s if x is not head and x != head] for s in seqs]
            seqs = [s for s in seqs if s]
        return res

    bases = cls.bases
    parts = []
    for b in bases:
        if isinstance(b, ClassInfo):
            parts.append(b.mro())
        else:
            parts.append([b])
    return [cls] + merge(parts + [list(bases)])


class ModuleInfo:
    def __init__(self, name: str, relpath: str, path: str, is_pkg: bool):
        self.name = name
        self.relpath = relpath
        self.path = path
        self.is_pkg = is_pkg
        self.package = name if is_pkg else name.rsplit(".", 1)[0] if "." in name else ""
        self.source = open(path, encoding="utf-8").read()
        self.tree = ast.parse(self.source, filename=path)
        self.is_test = os.path.basename(path).startswith("test_")
        # symbol table: name -> ("func", FuncInfo) | ("class", ClassInfo) | ("import", modname) |
        #   ("from", modname, attr) | ("expr", ast expr) | ("unknown", None)
        self.symbols: Dict[str, Tuple] = {}
        self.functions: Dict[str, FuncInfo] = {}  # top-level
        self.classes: Dict[str, ClassInfo] = {}
        self.pruned: List[str] = []
        self.global_writers: Dict[str, List[str]] = {}

    def __repr__(self):
        return "<module %s>" % self.name


class Program:
    def __init__(self, repo: str = None, include_tests: bool = False):
        self.repo = repo or REPO
        self.modules: Dict[str, ModuleInfo] = {}
        self.funcs: Dict[str, FuncInfo] = {}
        self.classes: Dict[str, ClassInfo] = {}
        self.func_by_node: Dict[int, FuncInfo] = {}
        self.pruned_arms: List[str] = []
        self._fold_cache: Dict[Tuple[str, str], Any] = {}
        self._folding: set = set()
        self.files_digest = hashlib.sha256()
        self._load(include_tests)
        self._index()

    # ------------------------------------------------------------------ loading
    def _load(self, include_tests):
        for rel, pkg in PACKAGES:
            root = os.path.join(self.repo, rel)
            if not os.path.isdir(root):
                raise AnalysisError("package directory missing: %s" % root)
            for dirpath, dirnames, filenames in os.walk(root):
                dirnames[:] = sorted(d for d in dirnames if d != "__pycache__")
                for fn in sorted(filenames):
                    if not fn.endswith(".py"):
                        continue
                    if fn.startswith("test_") and not include_tests:
                        continue
                    path = os.path.join(dirpath, fn)
                    relp = os.path.relpath(path, self.repo)
                    sub = os.path.relpath(path, root)[:-3].replace(os.sep, ".")
                    is_pkg = False
                    if sub.endswith("__init__"):
                        sub = sub[: -len("__init__")].rstrip(".")
                        is_pkg = True
                    name = pkg + ("." + sub if sub else "")
                    try:
                        m = ModuleInfo(name, relp, path, is_pkg)
                    except SyntaxError as e:
                        raise AnalysisError("cannot parse %s: %s" % (relp, e))
                    self.files_digest.update(relp.encode() + b"\0" + m.source.encode() + b"\0")
                    self.modules[name] = m

    def _index(self):
        for m in self.modules.values():
            self._index_block(m, m.tree.body, m, None)
        # resolve bases
        for c in self.classes.values():
            for be in c.base_exprs:
                r = self.resolve_expr_static(c.module, be)
                if isinstance(r, ClassInfo):
                    c.bases.append(r)
                else:
                    c.bases.append(_dotted(be) or "?")
        # injected class attributes: `Cls.name = func` at module level
        for m in self.modules.values():
            for st in self.live_body(m, m.tree.body):
                if isinstance(st, ast.Assign) and len(st.targets) == 1 and isinstance(st.targets[0], ast.Attribute):
                    tgt = st.targets[0]
                    owner = self.resolve_expr_static(m, tgt.value)
                    if isinstance(owner, ClassInfo):
                        val = self.resolve_expr_static(m, st.value)
                        owner.injected[tgt.attr] = val if val is not None else st.value
                elif isinstance(st, ast.Expr) and isinstance(st.value, ast.Call) and not st.value.keywords:
                    # `install(Cls, Hooks(f, g, h))` at module level where install() only does `param.attr = <param or field of a record parameter>`:
                    # the injections the call performs
                    self._injections_of_call(m, st.value)

    def _injections_of_call(self, m, call: ast.Call):
        fn = self.resolve_expr_static(m, call.func)
        if not isinstance(fn, FuncInfo) or not isinstance(fn.node, ast.FunctionDef) or fn.cls is not None:
            return
        body = [s_ for s_ in fn.node.body if not (isinstance(s_, ast.Expr) and isinstance(s_.value, ast.Constant))]
        params = fn.params
        if len(params) != len(call.args) or not body:
            return
        if not all(isinstance(s_, ast.Assign) and len(s_.targets) == 1 and isinstance(s_.targets[0], ast.Attribute) and isinstance(s_.targets[0].value, ast.Name) and s_.targets[0].value.id in params for s_ in body):
            return
        actual = dict(zip(params, call.args))
        for s_ in body:
            owner = self.resolve_expr_static(m, actual[s_.targets[0].value.id])
            if not isinstance(owner, ClassInfo):
                return
            v = s_.value
            val = None
            if isinstance(v, ast.Name) and v.id in actual:
                val = self.resolve_expr_static(m, actual[v.id])
            elif isinstance(v, ast.Attribute) and isinstance(v.value, ast.Name) and v.value.id in actual:
                rec = actual[v.value.id]
                # a record built in place: Hooks(a, b, c) / Hooks(x=a, ...) of a named-tuple class of the repository
                if isinstance(rec, ast.Call):
                    rc = self.resolve_expr_static(m, rec.func)
                    fields = self.namedtuple_fields_of(rc) if isinstance(rc, ClassInfo) else None
                    if fields and v.attr in fields:
                        i = fields.index(v.attr)
                        kw = {k.arg: k.value for k in rec.keywords if k.arg}
                        e = rec.args[i] if i < len(rec.args) else kw.get(v.attr)
                        if e is not None:
                            val = self.resolve_expr_static(m, e)
            if val is None:
                return
            owner.injected[s_.targets[0].attr] = val

    def resolve_relative(self, m: ModuleInfo, level: int, modname: Optional[str]) -> str:
        if level == 0:
            return modname or ""
        base = m.name if m.is_pkg else m.package
        parts = base.split(".") if base else []
        if level > 1:
            parts = parts[: len(parts) - (level - 1)]
        if modname:
            parts += modname.split(".")
        return ".".join(parts)

    # static truth of an interpreter guard; None = not decidable
    def static_test(self, m: ModuleInfo, test: ast.AST) -> Optional[bool]:
        try:
            v = self._eval_guard(m, test)
        except NotConst:
            return None
        return bool(v)

    def _eval_guard(self, m, e):
        if isinstance(e, ast.Compare) and len(e.ops) == 1:
            l = self._eval_guard(m, e.left)
            r = self._eval_guard(m, e.comparators[0])
            op = e.ops[0]
            try:
                if isinstance(op, ast.Lt):
                    return l < r
                if isinstance(op, ast.LtE):
                    return l <= r
                if isinstance(op, ast.Gt):
                    return l > r
                if isinstance(op, ast.GtE):
                    return l >= r
                if isinstance(op, ast.Eq):
                    return l == r
                if isinstance(op, ast.NotEq):
                    return l != r
            except TypeError:
                raise NotConst()
            raise NotConst()
        if isinstance(e, ast.BoolOp):
            vals = [self._eval_guard(m, v) for v in e.values]
            return all(vals) if isinstance(e.op, ast.And) else any(vals)
        if isinstance(e, ast.UnaryOp) and isinstance(e.op, ast.Not):
            return not self._eval_guard(m, e.operand)
        d = _dotted(e)
        if d == "sys.version_info":
            return PY_VERSION
        if d == "sys.implementation.name":
            return "cpython"
        if isinstance(e, ast.Subscript) and _dotted(e.value) == "sys.version_info":
            try:
                i = ast.literal_eval(e.slice)
                return PY_VERSION[i]
            except Exception:
                raise NotConst()
        if isinstance(e, ast.Constant):
            return e.value
        if isinstance(e, ast.Tuple):
            return tuple(self._eval_guard(m, x) for x in e.elts)
        if isinstance(e, ast.Name) and e.id in ("PY2", "GMPY", "GMPY2"):
            sym = m.symbols.get(e.id)
            if sym and sym[0] == "expr" and isinstance(sym[1], ast.Constant):
                return sym[1].value
            if sym and sym[0] == "from":
                tm = self.modules.get(sym[1])
                if tm:
                    s2 = tm.symbols.get(sym[2])
                    if s2 and s2[0] == "expr" and isinstance(s2[1], ast.Constant):
                        return s2[1].value
            raise NotConst()
        if isinstance(e, ast.Call) and _dotted(e.func) == "platform.system":
            return "Linux"
        raise NotConst()

    def live_body(self, m: ModuleInfo, body: List[ast.stmt]) -> List[ast.stmt]:
        """Flatten a statement list, replacing statically decidable interpreter guards
        (version tests, py2 name probes, imports of absent modules) by their live arm."""
        out: List[ast.stmt] = []
        for st in body:
            if isinstance(st, ast.If):
                tv = self.static_test(m, st.test)
                if tv is True:
                    self._note_prune(m, st, "else")
                    out.extend(self.live_body(m, st.body))
                    continue
                if tv is False:
                    self._note_prune(m, st, "then")
                    out.extend(self.live_body(m, st.orelse))
                    continue
                out.append(st)
            elif isinstance(st, ast.Try) and self._try_probe(m, st) is not None:
                arm = self._try_probe(m, st)
                if arm == "handler":
                    self._note_prune(m, st, "try-body")
                    out.extend(self.live_body(m, st.handlers[0].body))
                else:
                    self._note_prune(m, st, "handlers")
                    out.extend(self.live_body(m, st.body))
                    out.extend(self.live_body(m, st.orelse))
            else:
                out.append(st)
        return out

    def _note_prune(self, m, st, what):
        s = "%s:%d %s arm pruned" % (m.relpath, st.lineno, what)
        if s not in self.pruned_arms:
            self.pruned_arms.append(s)

    def _try_probe(self, m, st: ast.Try) -> Optional[str]:
        """`try: xrange / except` and `try: from gmpy2 import ... / except ImportError` probes"""
        if not st.handlers or st.finalbody:
            return None
        first = st.body[0]
        if isinstance(first, ast.Expr) and isinstance(first.value, ast.Name) and first.value.id in PY2_ONLY_NAMES and len(st.body) == 1:
            return "handler"
        if isinstance(first, ast.Assign) and isinstance(first.value, ast.Name) and first.value.id in PY2_ONLY_NAMES and len(st.body) == 1:
            return "handler"
        if isinstance(first, ast.ImportFrom) and first.level == 0 and first.module and first.module.split(".")[0] in ABSENT_MODULES:
            return "handler"
        if isinstance(first, ast.Import) and first.names[0].name.split(".")[0] in ABSENT_MODULES:
            return "handler"
        return None

    def _index_block(self, m: ModuleInfo, body, scope, cls: Optional[ClassInfo], parent_fn: Optional[FuncInfo] = None, prefix: str = None):
        prefix = prefix if prefix is not None else m.name
        for st in self.live_body(m, body):
            if isinstance(st, (ast.FunctionDef, ast.AsyncFunctionDef)):
                qn = prefix + "." + st.name
                fi = FuncInfo(m, st, qn, cls, parent_fn)
                self.funcs[qn] = fi  # later definition overrides earlier (python semantics)
                self.func_by_node[id(st)] = fi
                if cls is not None and parent_fn is None:
                    if fi.kind == "setter" and st.name in cls.methods:
                        pass
                    else:
                        cls.methods[st.name] = fi
                elif parent_fn is None:
                    m.functions[st.name] = fi
                    m.symbols[st.name] = ("func", fi)
                self._index_nested(m, st, fi, prefix=qn + ".<locals>")
            elif isinstance(st, ast.ClassDef):
                qn = prefix + "." + st.name
                ci = ClassInfo(m, st, qn)
                self.classes[qn] = ci
                if cls is None and parent_fn is None:
                    m.classes[st.name] = ci
                    m.symbols[st.name] = ("class", ci)
                self._index_block(m, st.body, ci, ci, None, prefix=qn)
            elif isinstance(st, ast.Import):
                if cls is None and parent_fn is None:
                    for a in st.names:
                        if a.asname:
                            m.symbols[a.asname] = ("import", a.name)
                        else:
                            m.symbols[a.name.split(".")[0]] = ("import", a.name.split(".")[0])
            elif isinstance(st, ast.ImportFrom):
                if cls is None and parent_fn is None:
                    modname = self.resolve_relative(m, st.level, st.module)
                    for a in st.names:
                        m.symbols[a.asname or a.name] = ("from", modname, a.name)
            elif isinstance(st, (ast.Assign, ast.AnnAssign)):
                targets = st.targets if isinstance(st, ast.Assign) else [st.target]
                value = st.value
                if value is None:
                    continue
                for t in targets:
                    if isinstance(t, ast.Name):
                        if cls is not None:
                            cls.attrs[t.id] = value
                        elif parent_fn is None:
                            if isinstance(value, ast.Name) and m.symbols.get(value.id, ("?",))[0] in ("func", "class"):
                                # alias of a def: bind to the definition visible *at this point* (crypto.py defines
                                # random_bytes twice; `__random_bytes = random_bytes` refers to the first one)
                                m.symbols[t.id] = m.symbols[value.id]
                            else:
                                m.symbols[t.id] = ("expr", value)
                    elif isinstance(t, (ast.Tuple, ast.List)) and isinstance(value, (ast.Tuple, ast.List)) and len(t.elts) == len(value.elts):
                        for te, ve in zip(t.elts, value.elts):
                            if isinstance(te, ast.Name):
                                if cls is not None:
                                    cls.attrs[te.id] = ve
                                elif parent_fn is None:
                                    m.symbols[te.id] = ("expr", ve)
            elif isinstance(st, (ast.If, ast.Try, ast.With, ast.For, ast.While)):
                # undecided conditional definitions: index all arms (later wins)
                for fld in ("body", "orelse", "finalbody"):
                    sub = getattr(st, fld, None)
                    if sub:
                        self._index_block(m, sub, scope, cls, parent_fn, prefix)
                for h in getattr(st, "handlers", []):
                    self._index_block(m, h.body, scope, cls, parent_fn, prefix)

    def _index_nested(self, m, fnode, fi: FuncInfo, prefix):
        for n in _walk_own(fnode):
            if isinstance(n, (ast.FunctionDef, ast.AsyncFunctionDef)):
                qn = prefix + "." + n.name
                sub = FuncInfo(m, n, qn, fi.cls, fi)
                self.funcs[qn] = sub
                self.func_by_node[id(n)] = sub
                self._index_nested(m, n, sub, prefix=qn + ".<locals>")
            elif isinstance(n, ast.Lambda):
                qn = prefix + ".<lambda@%d:%d>" % (n.lineno, n.col_offset)
                sub = FuncInfo(m, n, qn, fi.cls, fi)
                self.funcs[qn] = sub
                self.func_by_node[id(n)] = sub

    # ------------------------------------------------------------------ lookup helpers
    def module(self, name: str) -> ModuleInfo:
        if name not in self.modules:
            raise AnalysisError("module not found: %s" % name)
        return self.modules[name]

    def func(self, qualname: str) -> FuncInfo:
        if qualname not in self.funcs:
            # a method that is inherited (from a mixin the class was split into) or bound in the class body to a module-level function
            cq, _, nm = qualname.rpartition(".")
            c = self.classes.get(cq)
            r = c.lookup(nm) if c is not None else None
            if r is not None and isinstance(r[1], FuncInfo):
                return r[1]
            raise AnalysisError("anchor function not found: %s" % qualname)
        return self.funcs[qualname]

    def cls(self, qualname: str) -> ClassInfo:
        if qualname not in self.classes:
            raise AnalysisError("anchor class not found: %s" % qualname)
        return self.classes[qualname]

    def method(self, cls_qualname: str, name: str) -> FuncInfo:
        c = self.cls(cls_qualname)
        r = c.lookup(name)
        if r is None or not isinstance(r[1], FuncInfo):
            raise AnalysisError("anchor method not found: %s.%s" % (cls_qualname, name))
        return r[1]

    def subclasses(self, c: ClassInfo) -> List[ClassInfo]:
        return [k for k in self.classes.values() if k is not c and k.is_subclass_of(c) and not k.module.is_test]

    def resolve_symbol(self, m: ModuleInfo, name: str, _depth=0):
        """-> FuncInfo | ClassInfo | ModuleInfo | ('expr', module, ast) | ('external', dotted) | None"""
        if _depth > 20:
            return None
        sym = m.symbols.get(name)
        if sym is None:
            return None
        k = sym[0]
        if k == "func" or k == "class":
            return sym[1]
        if k == "import":
            if sym[1] in self.modules:
                return self.modules[sym[1]]
            return ("external", sym[1])
        if k == "from":
            modname, attr = sym[1], sym[2]
            sub = (modname + "." + attr) if modname else attr
            if modname in self.modules:
                tm = self.modules[modname]
                if attr in tm.symbols:
                    return self.resolve_symbol(tm, attr, _depth + 1)
                if sub in self.modules:
                    return self.modules[sub]
                return None
            if sub in self.modules:
                return self.modules[sub]
            return ("external", sub)
        if k == "expr":
            return ("expr", m, sym[1])
        return None

    def resolve_expr_static(self, m: ModuleInfo, e: ast.AST):
        """Resolve a Name / dotted Attribute to FuncInfo | ClassInfo | ModuleInfo, else None."""
        if isinstance(e, ast.Name):
            r = self.resolve_symbol(m, e.id)
            if isinstance(r, tuple) and r[0] == "expr":
                # alias `a = b`
                if isinstance(r[2], (ast.Name, ast.Attribute)) and r[2] is not e:
                    return self.resolve_expr_static(r[1], r[2])
                return None
            if isinstance(r, tuple):
                return None
            return r
        if isinstance(e, ast.Attribute):
            b = self.resolve_expr_static(m, e.value)
            if isinstance(b, ModuleInfo):
                r = self.resolve_symbol(b, e.attr)
                if isinstance(r, tuple) and r[0] == "expr":
                    if isinstance(r[2], (ast.Name, ast.Attribute)):
                        return self.resolve_expr_static(r[1], r[2])
                    return None
                if isinstance(r, tuple):
                    return None
                if r is None and (b.name + "." + e.attr) in self.modules:
                    return self.modules[b.name + "." + e.attr]
                return r
            if isinstance(b, ClassInfo):
                r = b.lookup(e.attr)
                if r and isinstance(r[1], FuncInfo):
                    return r[1]
            return None
        return None

    # ------------------------------------------------------------------ constant folding
    def fold_name(self, m: ModuleInfo, name: str):
        key = (m.name, name)
        if key in self._fold_cache:
            return self._fold_cache[key]
        if key in self._folding:
            raise NotConst()
        self._folding.add(key)
        try:
            r = self.resolve_symbol(m, name)
            if isinstance(r, tuple) and r[0] == "expr":
                v = self.fold(r[1], r[2])
                self._fold_cache[key] = v
                return v
            raise NotConst()
        finally:
            self._folding.discard(key)

    def fold_class_attr(self, c: ClassInfo, name: str):
        r = c.lookup(name)
        if r is None or isinstance(r[1], FuncInfo):
            raise NotConst()
        owner, expr = r
        return self.fold(owner.module, expr, cls=owner)

    def fold(self, m: ModuleInfo, e: ast.AST, cls: Optional[ClassInfo] = None, env: Optional[dict] = None):
        """Evaluate a pure constant expression from its syntax (closed set of operators/builtins)."""
        F = lambda x: self.fold(m, x, cls, env)
        if isinstance(e, ast.Constant):
            return e.value
        if isinstance(e, ast.Name):
            if env is not None and e.id in env:
                return env[e.id]
            if cls is not None and e.id in cls.attrs and cls.attrs[e.id] is not e and not any(x is e for x in ast.walk(cls.attrs[e.id])):
                return self.fold(cls.module, cls.attrs[e.id], cls=cls)
            # (a name inside the defining expression of the class attribute of the same name -- `X = X` in a class body -- is the module-level X)
            if e.id in ("True", "False", "None"):
                return {"True": True, "False": False, "None": None}[e.id]
            return self.fold_name(m, e.id)
        if isinstance(e, ast.Attribute):
            tgt = self.resolve_expr_static(m, e.value)
            if isinstance(tgt, ClassInfo):
                return self.fold_class_attr(tgt, e.attr)
            if isinstance(tgt, ModuleInfo):
                return self.fold_name(tgt, e.attr)
            raise NotConst()
        if isinstance(e, (ast.Tuple, ast.List)):
            vals = [F(x) for x in e.elts]
            return tuple(vals) if isinstance(e, ast.Tuple) else list(vals)
        if isinstance(e, ast.Set):
            return set(F(x) for x in e.elts)
        if isinstance(e, ast.Dict):
            d = {}
            for k, v in zip(e.keys, e.values):
                if k is None:
                    d.update(F(v))
                else:
                    d[F(k)] = F(v)
            return d
        if isinstance(e, ast.UnaryOp):
            v = F(e.operand)
            if isinstance(e.op, ast.USub):
                return -v
            if isinstance(e.op, ast.UAdd):
                return +v
            if isinstance(e.op, ast.Invert):
                return ~v
            if isinstance(e.op, ast.Not):
                return not v
        if isinstance(e, ast.BinOp):
            l, r = F(e.left), F(e.right)
            return _binop(e.op, l, r)
        if isinstance(e, ast.BoolOp):
            vals = [F(v) for v in e.values]
            if isinstance(e.op, ast.And):
                r = True
                for v in vals:
                    r = v
                    if not v:
                        break
                return r
            r = False
            for v in vals:
                r = v
                if v:
                    break
            return r
        if isinstance(e, ast.Compare) and len(e.ops) == 1:
            l, r = F(e.left), F(e.comparators[0])
            return _cmpop(e.ops[0], l, r)
        if isinstance(e, ast.IfExp):
            return F(e.body) if F(e.test) else F(e.orelse)
        if isinstance(e, ast.Subscript):
            base = F(e.value)
            if isinstance(e.slice, ast.Slice):
                lo = F(e.slice.lower) if e.slice.lower else None
                hi = F(e.slice.upper) if e.slice.upper else None
                stp = F(e.slice.step) if e.slice.step else None
                return base[lo:hi:stp]
            try:
                return base[F(e.slice)]
            except (KeyError, IndexError, TypeError):
                raise NotConst()
        if isinstance(e, ast.JoinedStr):
            raise NotConst()
        if isinstance(e, (ast.DictComp, ast.ListComp, ast.SetComp, ast.GeneratorExp)):
            return self._fold_comp(m, e, cls, env)
        if isinstance(e, ast.Call):
            return self._fold_call(m, e, cls, env)
        raise NotConst()

    def _fold_comp(self, m, e, cls, env):
        env = dict(env or {})
        results = []

        def rec(gi, env):
            if gi == len(e.generators):
                if isinstance(e, ast.DictComp):
                    results.append((self.fold(m, e.key, cls, env), self.fold(m, e.value, cls, env)))
                else:
                    results.append(self.fold(m, e.elt, cls, env))
                return
            g = e.generators[gi]
            it = self.fold(m, g.iter, cls, env)
            for item in it:
                env2 = dict(env)
                _bind_target(g.target, item, env2)
                if all(self.fold(m, c, cls, env2) for c in g.ifs):
                    rec(gi + 1, env2)

        rec(0, env)
        if isinstance(e, ast.DictComp):
            return dict(results)
        if isinstance(e, ast.SetComp):
            return set(results)
        return list(results)

    def _fold_call(self, m, e: ast.Call, cls, env):
        F = lambda x: self.fold(m, x, cls, env)
        fn = e.func
        args = None

        def A():
            nonlocal args
            if args is None:
                args = [F(a) for a in e.args]
            return args

        kw = {k.arg: F(k.value) for k in e.keywords if k.arg}
        d = _dotted(fn)
        if d == "bytes.fromhex":
            return bytes.fromhex(*A())
        if d in ("bytes", "int", "len", "tuple", "list", "dict", "sorted", "range", "str", "bool", "set", "frozenset", "min", "max", "sum", "abs", "pow", "bytearray", "divmod", "reversed", "enumerate", "zip", "chr", "ord", "hex"):
            try:
                r = getattr(__import__("builtins"), d)(*A(), **kw)
            except Exception:
                raise NotConst()
            if d in ("range", "reversed", "enumerate", "zip"):
                r = list(r)
            return r
        if d in ("xrange",):
            return list(range(*A()))
        if d in ("binascii.unhexlify", "unhexlify"):
            import binascii

            try:
                return binascii.unhexlify(*A())
            except Exception:
                raise NotConst()
        if isinstance(fn, ast.Attribute):
            # method on a constant receiver
            try:
                recv = F(fn.value)
            except NotConst:
                recv = _MISSING
            if recv is not _MISSING:
                meth = fn.attr
                allowed = {
                    int: {"to_bytes", "bit_length"},
                    bytes: {"hex", "upper", "lower", "decode", "join", "startswith", "endswith", "replace", "strip", "rstrip", "lstrip", "split"},
                    str: {"upper", "lower", "encode", "join", "format", "replace", "strip", "split", "startswith", "endswith", "rstrip", "lstrip", "zfill"},
                    dict: {"items", "keys", "values", "get"},
                    list: {"index", "count", "copy"},
                    tuple: {"index", "count"},
                }
                for ty, names in allowed.items():
                    if isinstance(recv, ty) and not isinstance(recv, bool) and meth in names:
                        try:
                            r = getattr(recv, meth)(*A(), **kw)
                        except Exception:
                            raise NotConst()
                        if meth in ("items", "keys", "values"):
                            r = list(r)
                        return r
                raise NotConst()
        # a small set of pure repo helpers, evaluated by folding their single return expression
        tgt = self.resolve_expr_static(m, fn)
        if isinstance(tgt, ClassInfo):
            fields = self.namedtuple_fields_of(tgt)
            if fields is not None:
                # a record of a named-tuple class of the repository: a tuple (that remembers its class and field names)
                vals = []
                for a in e.args:
                    if isinstance(a, ast.Starred):
                        vals.extend(list(F(a.value)))
                    else:
                        vals.append(F(a))
                if any(k.arg is None for k in e.keywords) or len(vals) > len(fields) or any(k not in fields[len(vals):] for k in kw):
                    raise NotConst()
                for f_ in fields[len(vals):]:
                    if f_ not in kw:
                        raise NotConst()
                    vals.append(kw[f_])
                return self.nt_value_class(tgt, fields)(vals)
        if isinstance(tgt, FuncInfo) and isinstance(tgt.node, ast.FunctionDef):
            body = [s for s in tgt.node.body if not (isinstance(s, ast.Expr) and isinstance(s.value, ast.Constant))]
            simple = body and isinstance(body[-1], ast.Return) and body[-1].value is not None and all(
                isinstance(s, ast.Assign) and len(s.targets) == 1 and isinstance(s.targets[0], ast.Name) for s in body[:-1])
            if simple and not e.keywords:
                params = tgt.params
                vals = A()
                if len(params) == len(vals):
                    lenv = dict(zip(params, vals))
                    for s in body[:-1]:
                        lenv[s.targets[0].id] = self.fold(tgt.module, s.value, None, lenv)
                    return self.fold(tgt.module, body[-1].value, None, lenv)
        if d in ("re.sub", "sub"):
            a = A()
            if len(a) in (3, 4) and all(isinstance(x, str) for x in a[:3]):
                return re.sub(a[0], a[1], a[2])
        raise NotConst()

    def namedtuple_fields_of(self, ci):
        """field names when the repository class ci is a named tuple (class C(namedtuple("C", "a b")) / class C(NamedTuple): a: int ...), else None"""
        cache = self.__dict__.setdefault("_nt_fields_cache", {})
        if ci.qualname in cache:
            return cache[ci.qualname]
        out = None
        for b in getattr(ci.node, "bases", []):
            d = _dotted(b.func) if isinstance(b, ast.Call) else _dotted(b)
            if isinstance(b, ast.Call) and d in ("namedtuple", "collections.namedtuple") and len(b.args) >= 2:
                try:
                    spec = self.fold(ci.module, b.args[1])
                except NotConst:
                    break
                out = tuple(spec.replace(",", " ").split()) if isinstance(spec, str) else tuple(spec) if isinstance(spec, (list, tuple)) and all(isinstance(x, str) for x in spec) else None
            elif d in ("NamedTuple", "typing.NamedTuple"):
                out = tuple(s_.target.id for s_ in ci.node.body if isinstance(s_, ast.AnnAssign) and isinstance(s_.target, ast.Name))
        cache[ci.qualname] = out
        return out

    def nt_value_class(self, ci, fields):
        cache = self.__dict__.setdefault("_nt_value_classes", {})
        if ci.qualname not in cache:
            cache[ci.qualname] = type(ci.name, (tuple,), {"_fields": tuple(fields), "_cls_qual": ci.qualname, "__slots__": ()})
        return cache[ci.qualname]

    def try_fold(self, m, e, cls=None, env=None, default=None):
        try:
            return self.fold(m, e, cls, env)
        except (NotConst, RecursionError):
            return default

    def digest(self) -> str:
        return self.files_digest.hexdigest()

    # statistics
    def stats(self) -> dict:
        units = {}
        for m in self.modules.values():
            pkg = m.name.split(".")
            key = pkg[0] if len(pkg) < 2 or pkg[0] == "bec2format" else ".".join(pkg[:2])
            u = units.setdefault(key, {"files": 0, "lines": 0, "functions": 0})
            u["files"] += 1
            u["lines"] += m.source.count("\n")
        for f in self.funcs.values():
            pkg = f.module.name.split(".")
            key = pkg[0] if len(pkg) < 2 or pkg[0] == "bec2format" else ".".join(pkg[:2])
            units[key]["functions"] += 1
        return units


class _Missing:
    pass


_MISSING = _Missing()


def _bind_target(t, item, env):
    if isinstance(t, ast.Name):
        env[t.id] = item
    elif isinstance(t, (ast.Tuple, ast.List)):
        item = list(item)
        if len(item) != len(t.elts):
            raise NotConst()
        for te, v in zip(t.elts, item):
            _bind_target(te, v, env)
    else:
        raise NotConst()


def _binop(op, l, r):
    try:
        if isinstance(op, ast.Add):
            return l + r
        if isinstance(op, ast.Sub):
            return l - r
        if isinstance(op, ast.Mult):
            if isinstance(l, int) and isinstance(r, (bytes, list, str, tuple)) and l > 1 << 20:
                raise NotConst()
            if isinstance(r, int) and isinstance(l, (bytes, list, str, tuple)) and r > 1 << 20:
                raise NotConst()
            return l * r
        if isinstance(op, ast.FloorDiv):
            return l // r
        if isinstance(op, ast.Div):
            return l / r
        if isinstance(op, ast.Mod):
            if isinstance(l, (str, bytes)):
                # printf-style formatting of constants by constants is itself a constant
                if isinstance(r, (int, str)) or (isinstance(r, tuple) and all(isinstance(x, (int, str)) for x in r)):
                    out = l % r
                    if len(out) <= 4096:
                        return out
                raise NotConst()
            return l % r
        if isinstance(op, ast.Pow):
            if isinstance(r, int) and r > 4096:
                raise NotConst()
            return l ** r
        if isinstance(op, ast.LShift):
            if r > 1 << 16:
                raise NotConst()
            return l << r
        if isinstance(op, ast.RShift):
            return l >> r
        if isinstance(op, ast.BitOr):
            return l | r
        if isinstance(op, ast.BitAnd):
            return l & r
        if isinstance(op, ast.BitXor):
            return l ^ r
    except NotConst:
        raise
    except Exception:
        raise NotConst()
    raise NotConst()


def _cmpop(op, l, r):
    try:
        if isinstance(op, ast.Eq):
            return l == r
        if isinstance(op, ast.NotEq):
            return l != r
        if isinstance(op, ast.Lt):
            return l < r
        if isinstance(op, ast.LtE):
            return l <= r
        if isinstance(op, ast.Gt):
            return l > r
        if isinstance(op, ast.GtE):
            return l >= r
        if isinstance(op, ast.In):
            return l in r
        if isinstance(op, ast.NotIn):
            return l not in r
        if isinstance(op, ast.Is):
            return l is r
        if isinstance(op, ast.IsNot):
            return l is not r
    except Exception:
        raise NotConst()
    raise NotConst()


def norm_src(node: ast.AST) -> str:
    """normalised text of a construct (position- and formatting-independent)"""
    try:
        return ast.unparse(node)
    except Exception:
        return ast.dump(node)
