"""TYPE: shape inference as a fold over terms.

type_of(term) -> frozenset of tags: int bool bytes str none list dict tuple bytearray set obj:<qualname> class func reader "?" (unknown)
"""
from __future__ import annotations

import ast
from typing import Optional

from .terms import Term, cval, is_const

INT = frozenset(["int"])
BYTES = frozenset(["bytes"])
STR = frozenset(["str"])
BOOL = frozenset(["bool"])
NONE_T = frozenset(["none"])
UNK = frozenset(["?"])

_METH_RET = {
    "to_bytes": BYTES, "hex": STR, "upper": None, "lower": None, "strip": None, "rstrip": None, "lstrip": None, "digest": BYTES, "hexdigest": STR,
    "decode": STR, "encode": BYTES, "format": STR, "startswith": BOOL, "endswith": BOOL, "bit_length": INT, "tell": INT, "read": BYTES,
    "readline": None, "split": frozenset(["list"]), "rsplit": frozenset(["list"]), "splitlines": frozenset(["list"]), "index": INT, "count": INT, "find": INT, "isdigit": BOOL, "replace": None, "zfill": STR,
    "getvalue": BYTES, "join": None, "items": frozenset(["list"]), "keys": frozenset(["list"]), "values": frozenset(["list"]), "copy": None, "title": STR,
}
_BUILTIN_RET = {
    "len": INT, "int": INT, "int.from_bytes": INT, "bytes": BYTES, "str": STR, "bool": BOOL, "ord": INT, "chr": STR, "hex": STR, "abs": INT, "repr": STR,
    "bytes.fromhex": BYTES, "sum": INT, "id": INT, "hash": INT, "bin": STR, "isinstance": BOOL, "hasattr": BOOL, "callable": BOOL, "any": BOOL, "all": BOOL,
    "sorted": frozenset(["list"]), "bytearray": frozenset(["bytearray"]), "divmod": frozenset(["tuple"]), "float": frozenset(["float"]), "round": INT, "format": STR,
}
_EXT_RET = {
    "binascii.unhexlify": BYTES, "binascii.hexlify": BYTES, "binascii.a2b_hex": BYTES, "binascii.b2a_hex": BYTES, "re.sub": STR, "os.urandom": BYTES,
    "base64.b64decode": BYTES, "base64.b64encode": BYTES, "struct.pack": BYTES, "struct.unpack": frozenset(["tuple"]),
}


def const_type(v) -> frozenset:
    if v is None:
        return NONE_T
    if isinstance(v, bool):
        return BOOL
    for ty, nm in ((int, "int"), (bytes, "bytes"), (str, "str"), (tuple, "tuple"), (list, "list"), (dict, "dict"), (float, "float"), (frozenset, "set"), (set, "set"), (bytearray, "bytearray")):
        if isinstance(v, ty):
            return frozenset([nm])
    return UNK


def ann_type(ex, module, ann) -> Optional[frozenset]:
    """type tags from a (simple) annotation expression"""
    if ann is None:
        return None
    if isinstance(ann, ast.Constant) and isinstance(ann.value, str):
        try:
            ann = ast.parse(ann.value, mode="eval").body
        except SyntaxError:
            return None
    if isinstance(ann, ast.Constant) and ann.value is None:
        return NONE_T
    if isinstance(ann, ast.Name):
        simple = {"int": INT, "bytes": BYTES, "str": STR, "bool": BOOL, "dict": frozenset(["dict"]), "list": frozenset(["list"]), "tuple": frozenset(["tuple"]), "None": NONE_T, "bytearray": frozenset(["bytearray"]), "float": frozenset(["float"])}
        if ann.id in simple:
            return simple[ann.id]
        if ann.id in ("ConfDict", "Dict"):
            return frozenset(["dict"])
        if ann.id in ("Any", "TextIO", "Iterable", "Iterator", "Callable", "Type"):
            return None
        c = ex.prog.resolve_expr_static(module, ann)
        from .load import ClassInfo

        if isinstance(c, ClassInfo):
            return frozenset(["obj:" + c.qualname])
        return None
    if isinstance(ann, ast.Subscript):
        head = ann.value.id if isinstance(ann.value, ast.Name) else (ann.value.attr if isinstance(ann.value, ast.Attribute) else None)
        if head == "Optional":
            inner = ann_type(ex, module, ann.slice)
            return None if inner is None else inner | NONE_T
        if head in ("list", "List"):
            return frozenset(["list"])
        if head in ("dict", "Dict"):
            return frozenset(["dict"])
        if head in ("tuple", "Tuple"):
            return frozenset(["tuple"])
        if head == "Union":
            elts = ann.slice.elts if isinstance(ann.slice, ast.Tuple) else [ann.slice]
            out = frozenset()
            for e in elts:
                t = ann_type(ex, module, e)
                if t is None:
                    return None
                out |= t
            return out
        return None
    if isinstance(ann, ast.BinOp) and isinstance(ann.op, ast.BitOr):
        a, b = ann_type(ex, module, ann.left), ann_type(ex, module, ann.right)
        if a is None or b is None:
            return None
        return a | b
    return None


def type_of(ex, t: Term, st=None, _depth=0, param_types=None) -> frozenset:
    if _depth > 40:
        return UNK
    if t._ty is not None and st is None:
        return t._ty
    r = _type_of(ex, t, st, _depth, param_types)
    if "?" in r:
        h = getattr(ex, "type_hints", {}).get(t.uid)
        if h is not None:
            r = h - frozenset(["none"]) if len(h) > 1 else h
    if st is None and param_types is None:
        t._ty = r
    return r


def _type_of(ex, t: Term, st, d, pt) -> frozenset:
    T = lambda x: type_of(ex, x, st, d + 1, pt)
    op, a = t.op, t.args
    if op == "const":
        return const_type(a[0])
    if op == "static":
        return const_type(ex.statics[a[0]])
    if op == "param":
        if pt and a[0] in pt and pt[a[0]] is not None:
            return pt[a[0]]
        return UNK
    if op == "ref":
        if st is not None:
            o = st.heap.get(a[0])
            if o is not None:
                if o.kind == "obj":
                    return frozenset(["obj:" + o.cls.qualname]) if o.cls is not None else UNK
                return frozenset([o.kind])
        lab = a[1] if len(a) > 1 else ""
        if lab in ("list", "dict", "bytearray", "set"):
            return frozenset([lab])
        if isinstance(lab, str) and lab.startswith("gen:"):
            return frozenset(["list"])
        return UNK
    if op == "snap":
        return T(a[0])
    if op in ("cmp", "isinst", "truthy") or (op == "un" and a[0] == "Not"):
        return BOOL
    if op == "len":
        return INT
    if op in ("and", "or"):
        out = frozenset()
        for x in a[0]:
            out |= T(x)
        return out
    if op == "un":
        return T(a[1])
    if op == "bin":
        bop, l, r = a
        tl, tr = T(l), T(r)
        if bop in ("Add",):
            if tl == tr and "?" not in tl:
                return tl
            if "?" in tl and "?" not in tr and tr <= frozenset(["bytes", "str", "list", "tuple"]):
                return tr
            if "?" in tr and "?" not in tl and tl <= frozenset(["bytes", "str", "list", "tuple"]):
                return tl
            if tl <= frozenset(["int", "bool"]) and tr <= frozenset(["int", "bool"]):
                return INT
            return UNK
        if bop == "Mult":
            for x, y in ((tl, tr), (tr, tl)):
                if x <= frozenset(["bytes", "str", "list", "tuple"]) and "?" not in x:
                    return x
            if tl <= frozenset(["int", "bool"]) and tr <= frozenset(["int", "bool"]):
                return INT
            return UNK
        if bop == "Mod" and tl <= STR:
            return STR
        if bop in ("Sub", "FloorDiv", "Mod", "LShift", "RShift", "BitOr", "BitAnd", "BitXor", "Pow"):
            if (tl <= frozenset(["int", "bool"]) or "?" in tl) and (tr <= frozenset(["int", "bool"]) or "?" in tr):
                return INT
            return UNK
        return UNK
    if op == "phi":
        return T(a[1]) | T(a[2])
    if op == "tuple":
        return frozenset(["tuple"])
    if op in ("comp",):
        return frozenset(["list"]) if a[0] in ("list", "gen") else frozenset([a[0]])
    if op == "join":
        return T(a[0])
    if op == "fstr":
        return STR
    if op == "slice":
        return T(a[0])
    if op == "word":
        return INT
    if op == "sub":
        tb = T(a[0])
        if tb <= BYTES | frozenset(["bytearray"]) and "?" not in tb:
            return INT
        if tb <= STR:
            return STR
        if a[0].op == "elem":
            return UNK
        return UNK
    if op == "elem":
        inner = a[0]
        if inner.op in ("tuple", "call", "bin", "const") and a[0].op != "static":
            # element of a list filled by a single producer: the produced value's type
            ti = T(inner)
            if inner.op == "tuple":
                return frozenset(["tuple"])
            tb = T(inner)
            if tb <= BYTES | frozenset(["bytearray"]):
                return INT
            if tb <= STR:
                return STR
        tb = T(inner)
        if tb <= BYTES | frozenset(["bytearray"]) and "?" not in tb:
            return INT
        if tb <= STR and "?" not in tb:
            return STR
        return UNK
    if op == "index":
        return INT
    if op == "call":
        fn = a[0]
        if isinstance(fn, Term):
            if fn.op == "meth":
                recv, name = fn.args
                if name in _METH_RET:
                    r = _METH_RET[name]
                    if r is None:
                        tr = T(recv)
                        if name == "join":
                            return tr
                        if name == "readline":
                            return STR
                        return tr
                    if name == "get":
                        return UNK
                    return r
                if name == "read_int":
                    return INT
                return UNK
            if fn.op == "builtin":
                return _BUILTIN_RET.get(fn.args[0], UNK)
            if fn.op == "ext":
                return _EXT_RET.get(fn.args[0], UNK)
            if fn.op == "func":
                fi = ex.fis.get(fn.args[1])
                if fi is not None and getattr(fi.node, "returns", None) is not None:
                    r = ann_type(ex, fi.module, fi.node.returns)
                    if r is not None:
                        return r
        return UNK
    if op in ("loopvar", "loopexit"):
        lr = ex.loops.get(a[0])
        if lr is not None and a[1] in lr.init and d < 30:
            ti = T(lr.init[a[1]])
            # assume the loop preserves the type of its carried variable if next has the same type modulo itself
            return ti
        return UNK
    if op in ("func", "bound", "closure", "partial"):
        return frozenset(["func"])
    if op == "class":
        return frozenset(["class"])
    if op == "iterview":
        return frozenset(["list"])
    if op == "range":
        return frozenset(["list"])
    if op == "key" or op == "value":
        return UNK
    return UNK
