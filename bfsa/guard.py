"""GUARD: relational normal form of branch conditions, dominance queries on the structured trace."""
from __future__ import annotations

from typing import Iterable, List, Optional, Tuple

from .heap import Event
from .terms import C, Term, cval, is_const, mk, show, subterms

NEG = {"Eq": "NotEq", "NotEq": "Eq", "Lt": "GtE", "GtE": "Lt", "Gt": "LtE", "LtE": "Gt", "In": "NotIn", "NotIn": "In", "Is": "IsNot", "IsNot": "Is", "Truthy": "Falsy", "Falsy": "Truthy"}
FLIP = {"Gt": "Lt", "GtE": "LtE"}
SYM = {"Eq", "NotEq", "Is", "IsNot"}


def unsnap(t: Term) -> Term:
    while isinstance(t, Term) and t.op == "snap":
        t = t.args[0]
    return t


def rel(cond: Term, positive: bool = True):
    """normal form of `cond` (or its negation): ("rel", op, a, b) | ("and", [..]) | ("or", [..]) | ("rel", Truthy|Falsy, x, None)"""
    c = cond
    if c.op == "un" and c.args[0] == "Not":
        return rel(c.args[1], not positive)
    if c.op == "truthy":
        return ("rel", "Truthy" if positive else "Falsy", unsnap(c.args[0]), None)
    if c.op == "cmp":
        op, a, b = c.args
        a, b = unsnap(a), unsnap(b)
        if not positive:
            op = NEG[op]
        if op in FLIP:
            op, a, b = FLIP[op], b, a
        if op in SYM and a.uid > b.uid:
            a, b = b, a
        return ("rel", op, a, b)
    if c.op in ("and", "or"):
        parts = [rel(x if x.op in ("cmp", "un", "and", "or", "truthy", "isinst") else mk("truthy", x), positive) for x in c.args[0]]
        kind = c.op
        if not positive:
            kind = "or" if kind == "and" else "and"
        return (kind, parts)
    if c.op == "isinst":
        return ("rel", "IsInst" if positive else "NotIsInst", unsnap(c.args[0]), c.args[1])
    if is_const(c):
        return ("const", bool(cval(c)) == positive)
    return ("rel", "Truthy" if positive else "Falsy", unsnap(c), None)


def raise_rel(g: Event):
    """normal form of the condition under which guard event `g` terminates"""
    return rel(g.d["cond"], bool(g.d["pol"]))


def atoms(r) -> List[tuple]:
    """flatten a normal form into its relational atoms (disjuncts of the terminating condition, conjuncts of and)"""
    if r[0] == "rel":
        return [r]
    if r[0] in ("and", "or"):
        out = []
        for p in r[1]:
            out += atoms(p)
        return out
    return []


def disjuncts(r) -> List[tuple]:
    if r[0] == "or":
        out = []
        for p in r[1]:
            out += disjuncts(p)
        return out
    return [r]


def show_rel(r, depth=4) -> str:
    if r[0] == "rel":
        if r[3] is None:
            return "%s(%s)" % (r[1], show(r[2], depth))
        return "%s %s %s" % (show(r[2], depth), r[1], show(r[3], depth))
    if r[0] in ("and", "or"):
        return "(" + (" %s " % r[0]).join(show_rel(p, depth) for p in r[1]) + ")"
    return str(r)


# ------------------------------------------------------------------------------------------------ dominance
BARRIER = ("if", "loop", "try", "except", "tryelse", "choice", "with_", "finally")


def _barrier_frames(ctx, swallowing_try_ids=None) -> List[tuple]:
    out = []
    for f in ctx:
        if f[0] in ("if", "loop", "except", "choice"):
            out.append(f)
        elif f[0] == "try":
            # a try body is a barrier only if one of its handlers can fall through
            if swallowing_try_ids is None or f[1] in swallowing_try_ids:
                out.append(f)
    return out


def swallowing_tries(events: Iterable[Event]) -> set:
    s = set()
    for e in events:
        if e.kind == "handler_end" and e.d["falls_through"]:
            s.add(e.d["tid"])
    return s


def dominates(g: Event, x: Event, swallowing=None, allow: Iterable[tuple] = ()) -> bool:
    """every path reaching x has passed g (structural: g earlier, all of g's enclosing branch/loop frames enclose x)"""
    if g.uid >= x.uid:
        return False
    xs = set(x.ctx)
    allow = set(allow)
    for f in _barrier_frames(g.ctx, swallowing):
        if f not in xs and f not in allow:
            return False
    return True


def mentions(t: Term, sub: Term) -> bool:
    sub = unsnap(sub)
    return any(x is sub for x in subterms(t))


def guards_of(events: Iterable[Event]) -> List[Event]:
    return [e for e in events if e.kind == "guard"]
