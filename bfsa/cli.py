"""check <ID> [--tier quick|thorough]  -- static checks of /repo's current working tree.

exit 0: property clauses hold (KNOWN-FINDING lines possible); 1: VIOLATION; 2: ANALYSIS-ERROR / INCOMPLETE
"""
from __future__ import annotations

import argparse
import importlib
import os
import sys
import traceback


def main(argv=None) -> int:
    ap = argparse.ArgumentParser()
    ap.add_argument("pid")
    ap.add_argument("--tier", default=os.environ.get("VERIF_TIER", "quick"), choices=["quick", "thorough"])
    ap.add_argument("--repo", default=os.environ.get("BFSA_REPO", "/repo"))
    a = ap.parse_args(argv)
    pid = a.pid.upper()
    os.environ["BFSA_REPO"] = a.repo
    sys.setrecursionlimit(20000)
    from .load import AnalysisError, Program
    from .report import Check

    try:
        mod = importlib.import_module("rules.%s" % pid.lower())
    except ModuleNotFoundError:
        print("ANALYSIS-ERROR property=%s no rule module" % pid)
        return 2
    chk = None
    prog = None
    try:
        prog = Program(a.repo)
        chk = Check(pid, a.tier, getattr(mod, "LEVEL", "other"))
        mod.run(prog, chk, a.tier)
        return chk.finish(prog)
    except AnalysisError as e:
        if chk is not None and any(o.status == "violation" for o in chk.obls):
            # a rule that ran before the analysis stopped found a violation: that finding stands; the rest of the property is undecided
            chk.undecided.append("%s: %s (rules after this point were not evaluated)" % (type(e).__name__, e))
            rc = chk.finish(prog)
            if rc == 1:
                return 1
        print("ANALYSIS-ERROR property=%s %s: %s" % (pid, type(e).__name__, e))
        return 2
    except RecursionError:
        print("ANALYSIS-ERROR property=%s recursion limit" % pid)
        return 2
    except Exception as e:  # never let a traceback look like a violation
        traceback.print_exc()
        print("ANALYSIS-ERROR property=%s internal %s: %s" % (pid, type(e).__name__, e))
        return 2


if __name__ == "__main__":
    sys.exit(main())
