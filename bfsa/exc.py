"""EXC: interprocedural exception-escape analysis (may-raise sets with witnesses) + FACTS discharge.

For every function: the set of exception classes that may leave it = explicit raises  U  implicit raisers from a fixed
catalogue (typed by shape inference, discharged by path facts)  U  escapes of callees (summaries, fixpoint over the call
graph; dynamic dispatch by class-hierarchy analysis)  --  minus what enclosing handlers catch.
"""
from __future__ import annotations

import ast
from typing import Dict, List, Optional, Set, Tuple

from .guard import rel, unsnap
from .heap import BUILTIN_EXC, Event
from .layout import builtin_call, meth_call
from .load import ClassInfo, FuncInfo, Program
from .symexec import Exec
from .terms import C, NONE, Term, cval, is_const, mk, show, subterms
from .types import type_of

BUILTIN_BASES = {
    "BaseException": None, "Exception": "BaseException", "ArithmeticError": "Exception", "ZeroDivisionError": "ArithmeticError", "OverflowError": "ArithmeticError",
    "FloatingPointError": "ArithmeticError", "AssertionError": "Exception", "AttributeError": "Exception", "BufferError": "Exception", "EOFError": "Exception",
    "ImportError": "Exception", "LookupError": "Exception", "IndexError": "LookupError", "KeyError": "LookupError", "MemoryError": "Exception", "NameError": "Exception",
    "OSError": "Exception", "IOError": "Exception", "FileNotFoundError": "OSError", "PermissionError": "OSError", "RuntimeError": "Exception", "NotImplementedError": "RuntimeError", "RecursionError": "RuntimeError",
    "StopIteration": "Exception", "TypeError": "Exception", "ValueError": "Exception", "UnicodeError": "ValueError", "UnicodeDecodeError": "UnicodeError", "UnicodeEncodeError": "UnicodeError",
    "binascii.Error": "ValueError", "struct.error": "Exception", "Warning": "Exception", "KeyboardInterrupt": "BaseException", "SystemExit": "BaseException", "GeneratorExit": "BaseException",
}


class Hier:
    def __init__(self, prog: Program):
        self.prog = prog

    def parents(self, name: str) -> List[str]:
        if name in self.prog.classes:
            c = self.prog.classes[name]
            out = []
            for b in c.bases:
                out.append(b.qualname if isinstance(b, ClassInfo) else self._ext(b))
            return out
        if name in BUILTIN_BASES:
            p = BUILTIN_BASES[name]
            return [p] if p else []
        return ["Exception"] if name != "BaseException" else []

    def _ext(self, b: str) -> str:
        b = b.split(".")[-1] if b.split(".")[-1] in BUILTIN_BASES else b
        return b

    def is_sub(self, name: str, base: str) -> bool:
        if name == base:
            return True
        seen = set()
        stack = [name]
        while stack:
            n = stack.pop()
            if n in seen:
                continue
            seen.add(n)
            if n == base or n.split(".")[-1] == base:
                return True
            stack.extend(self.parents(n))
        return False


class Escape:
    __slots__ = ("exc", "where", "construct", "fn", "chain", "kind")

    def __init__(self, exc, where, construct, fn, chain, kind):
        self.exc, self.where, self.construct, self.fn, self.chain, self.kind = exc, where, construct, fn, chain, kind

    def via(self, site: str) -> "Escape":
        return Escape(self.exc, self.where, self.construct, self.fn, [site] + self.chain, self.kind)

    def key(self):
        return (self.exc, self.fn, self.construct)


MUT_SAFE_METHODS = {"append", "extend", "insert", "sort", "reverse", "clear", "update", "add", "discard", "copy", "items", "keys", "values", "get", "setdefault",
                    "startswith", "endswith", "strip", "rstrip", "lstrip", "upper", "lower", "hex", "split", "rsplit", "splitlines", "join", "replace", "format", "encode", "zfill", "title",
                    "digest", "hexdigest", "bit_length", "tell", "getvalue", "close", "write", "flush", "group", "groups", "isdigit", "find", "rfind", "count", "acquire", "release", "partition", "lstrip"}
# file-like I/O on caller supplied streams: environmental (OSError family), outside the property
IO_METHODS = {"read", "readline", "readlines", "seek", "truncate"}


class ExcAnalysis:
    def __init__(self, prog: Program, registered: bool = True, inline=None, dispatch_scope=None, summaries: Dict[str, Set[str]] = None, extra_facts=None, int_index_means_sequence: bool = False, callsite_helpers=(), arith_total: bool = False):
        self.prog = prog
        self.registered = registered
        self.h = Hier(prog)
        self.inline = inline or (lambda ex, fi, depth: fi.parent is not None or fi.name == "<lambda>")
        self.memo: Dict[int, List[Escape]] = {}
        self.in_progress: Set[int] = set()
        self.dispatch_scope = dispatch_scope or (lambda c: True)
        self.fixed_summaries = summaries or {}
        self.assumptions: List[str] = []
        self.unresolved: List[str] = []
        self.sites_examined = 0
        self.sites_discharged = 0
        self.discharged: List[Tuple[str, str, str]] = []
        self.functions_analysed: Set[str] = set()
        self.recursion_hit = False
        self.int_index_means_sequence = int_index_means_sequence
        self.callsite_helpers = set(callsite_helpers)
        self.arith_total = arith_total
        self.global_writes: List[Tuple[str, str, str]] = []
        self.while_loops: List[Tuple] = []

    reencode_total: Set[str] = set()  # decoders that are total on the output of the matching encoder (set by the rule that uses the analysis)

    @staticmethod
    def _is_own_encoding(call_event) -> bool:
        args = [a for a in call_event.d.get("args", ()) if unsnap(a).op != "class"]
        if len(args) != 1:
            return False
        a = unsnap(args[0])
        return a.op == "call" and isinstance(a.args[0], Term) and a.args[0].op == "meth" and a.args[0].args[1] in ("to_der", "to_der_fmt") and not a.args[1]

    # ------------------------------------------------------------------ public
    def escapes(self, fi: FuncInfo, self_cls: Optional[ClassInfo] = None) -> List[Escape]:
        key = (id(fi.node), self_cls.qualname if self_cls else None)
        if key in self.memo:
            return self.memo[key]
        if fi.qualname in self.fixed_summaries:
            r = [Escape(e, "%s:%d" % (fi.file, fi.lineno), "summary", fi.qualname, [], "summary") for e in self.fixed_summaries[fi.qualname]]
            self.memo[key] = r
            return r
        if key in self.in_progress:
            self.recursion_hit = True
            return []
        self.in_progress.add(key)
        try:
            r = self._analyse(fi, self_cls)
        finally:
            self.in_progress.discard(key)
        self.memo[key] = r
        return r

    # ------------------------------------------------------------------ per function
    def _analyse(self, fi: FuncInfo, self_cls) -> List[Escape]:
        self.functions_analysed.add(fi.qualname)
        ex = Exec(self.prog, policy=self.inline, registered=self.registered)
        try:
            res = ex.run(fi, self_cls=self_cls)
        except RecursionError:
            raise
        out: Dict[Tuple, Escape] = {}

        site_calls = {e.d["site"]: e for e in res.events if e.kind == "call" and e.d.get("inlined")}

        def add(esc: Escape, e: Event):
            if self.callsite_helpers and e.fn is not None and e.fn.name in self.callsite_helpers and not esc.chain:
                # raised inside an inlined helper: attribute to the helper's call site in the analysed code
                for f in e.ctx:
                    if f[0] == "call" and f[1] in site_calls and site_calls[f[1]].d["callee"].name in self.callsite_helpers:
                        ce = site_calls[f[1]]
                        try:
                            cons = ast.unparse(ce.node)
                        except Exception:
                            cons = esc.construct
                        esc = Escape(esc.exc, ce.where, cons, ce.fn.qualname if ce.fn else esc.fn, esc.chain, esc.kind)
                        break
            esc2 = self._filter(esc, e)
            if esc2 is not None and esc2.key() not in out:
                out[esc2.key()] = esc2

        for e in res.events:
            for esc in self._sources(ex, res, e, fi):
                add(esc, e)
            if e.kind in ("gstore", "clsstore"):
                self.global_writes.append((e.where, e.fn.qualname if e.fn else fi.qualname, "%s.%s" % (e.d.get("module", e.d.get("cls")), e.d["name"])))
            elif e.kind == "mcall" and unsnap(e.d["recv"]).op == "static" and e.d["name"] in ("append", "extend", "insert", "pop", "remove", "sort", "reverse", "clear", "update", "setdefault", "popitem", "add", "discard"):
                self.global_writes.append((e.where, e.fn.qualname if e.fn else fi.qualname, "%s.%s()" % (unsnap(e.d["recv"]).args[0], e.d["name"])))
            elif e.kind in ("setitem", "delitem") and unsnap(e.d["base"]).op in ("static", "global"):
                self.global_writes.append((e.where, e.fn.qualname if e.fn else fi.qualname, "%s[...] =" % show(e.d["base"], 2)))
            elif e.kind == "loop" and e.d.get("lkind") == "while":
                self.while_loops.append((fi, ex, res, e))
        return list(out.values())

    def _filter(self, esc: Escape, e: Event) -> Optional[Escape]:
        """drop the escape if an enclosing try catches it (frames innermost first)"""
        alts = esc.exc.split("|")
        for f in reversed(e.ctx):
            if f[0] == "try":
                handlers = [c for classes in f[2] for c in classes]
                alts = [a for a in alts if not any(self._catches(c, a) for c in handlers)]
                if not alts:
                    return None
        if len(alts) != len(esc.exc.split("|")):
            return Escape("|".join(alts), esc.where, esc.construct, esc.fn, esc.chain, esc.kind)
        return esc

    def _catches(self, handler: str, exc: str) -> bool:
        if handler in ("BaseException",):
            return True
        for alt in exc.split("|"):
            if not self.h.is_sub(alt, handler):
                return False
        return True

    # ------------------------------------------------------------------ raise sources of one event
    def _sources(self, ex: Exec, res, e: Event, fi: FuncInfo) -> List[Escape]:
        k = e.kind
        fn = e.fn.qualname if e.fn is not None else fi.qualname
        W = e.where
        out: List[Escape] = []

        def esc(exc, construct, kind="implicit"):
            # key constructs by the (normalised) source text of the raising expression: stable under unrelated edits
            if kind == "implicit" and isinstance(e.node, ast.AST) and not isinstance(e.node, (ast.stmt,)) and e.kind in ("subscript", "mcall", "extcall", "op", "unpack", "mutate"):
                try:
                    construct = ast.unparse(e.node)
                except Exception:
                    pass
            elif kind == "implicit" and isinstance(e.node, ast.stmt) and e.kind in ("unpack", "delitem", "mutate"):
                try:
                    construct = ast.unparse(e.node).split("\n")[0]
                except Exception:
                    pass
            out.append(Escape(exc, W, construct, fn, [], kind))

        if k == "raise":
            name = e.d.get("exc") or "?"
            if e.d.get("guard") is not None and name == "AssertionError":
                # `assert cond`: discharged when the path facts entail cond
                g = ex.trace[e.d["guard"]]
                self.sites_examined += 1
                try:
                    from .facts import Facts

                    F = Facts(ex)
                    F.add_event_facts(g)
                    if F.entails_rel(rel(g.d["cond"], True), g):
                        self.sites_discharged += 1
                        return out
                except RecursionError:
                    pass
                try:
                    esc("AssertionError", ast.unparse(g.node).split("\n")[0], "explicit")
                except Exception:
                    esc("AssertionError", "assert", "explicit")
                return out
            if e.d.get("reraise"):
                # re-raise of what the handler caught: the caught classes themselves
                for alt in name.split("|"):
                    esc(alt, "raise  (re-raise in handler)", "explicit")
            else:
                for alt in name.split("|"):
                    if alt == "<self.exception>":
                        alt = "ValueError"  # BytesReader default; other values are passed explicitly
                    esc(alt, "raise %s" % alt.split(".")[-1], "explicit")
            return out
        if k == "call" and not e.d.get("inlined"):
            callee: FuncInfo = e.d["callee"]
            self_cls = None
            recv = e.d.get("recv")
            if recv is not None:
                o = ex.obj(res.state, recv) if res.state is not None else None
                if o is not None and o.cls is not None and o.origin is None:
                    self_cls = o.cls
                elif unsnap(recv).op == "class":
                    self_cls = self.prog.classes.get(unsnap(recv).args[0])
                    # a classmethod reached through the registered subclass: run the override that class resolves to
                    if self_cls is not None:
                        r2 = self_cls.lookup(callee.name)
                        if r2 is not None and isinstance(r2[1], FuncInfo):
                            callee = r2[1]
            targets = [(callee, self_cls)]
            if callee.cls is not None and callee.cls.qualname in self._replaced_bases(ex) and recv is not None:
                o = ex.obj(res.state, recv) if res.state is not None else None
                if o is not None and o.origin is not None:
                    # symbolic object typed by an abstract registry base: the call goes to the registered implementation
                    targets = []
                    for c2 in self.prog.subclasses(callee.cls):
                        r2 = c2.lookup(callee.name)
                        if r2 is not None and isinstance(r2[1], FuncInfo) and r2[1] is not callee:
                            targets.append((r2[1], c2))
                    if not targets:
                        targets = [(callee, self_cls)]
            for (cal, sc) in targets:
                if cal.qualname in self.reencode_total and self._is_own_encoding(e):
                    # decoder applied to the library's own encoding of an existing key object: cannot fail (round-trip property, recorded as an assumption)
                    self.assumptions.append("%s applied to <key>.to_der() / .to_der_fmt() of an existing key object does not raise (encode / decode round trip: C19)" % cal.qualname.split(".")[-2])
                    continue
                for s in self.escapes(cal, sc):
                    out.append(s.via("%s -> %s" % (W, cal.qualname)))
            return out
        if k == "badcall":
            esc("TypeError", "call of %s: %s" % (e.d["callee"].qualname, e.d["reason"]))
            return out
        if k == "subscript":
            self.sites_examined += 1
            base, idx = unsnap(e.d["base"]), unsnap(e.d["index"])
            if e.d.get("certain_fail"):
                esc("IndexError|KeyError", "%s[%s] (always fails)" % (show(base, 3), show(idx, 2)))
                return out
            if e.d.get("certain_ok"):
                self.sites_discharged += 1
                return out
            kinds = self._subscript_exc(ex, res, base, idx, e)
            for x in kinds:
                esc(x, "%s[%s]" % (show(base, 3), show(idx, 3)))
            if not kinds:
                self.sites_discharged += 1
            return out
        if k == "unpack":
            self.sites_examined += 1
            v = unsnap(e.d["value"])
            safe = self._unpack_safe(ex, v, e.d["n"])
            if not safe:
                try:
                    from .facts import Facts

                    F = Facts(ex)
                    F.add_event_facts(e)
                    safe = F.entails_rel(("rel", "Eq", mk("len", v), C(e.d["n"])), e)
                except RecursionError:
                    safe = False
            if safe:
                self.sites_discharged += 1
            else:
                esc("ValueError", "unpack %s into %d names" % (show(v, 3), e.d["n"]))
            return out
        if k == "delitem":
            self.sites_examined += 1
            base, idx = unsnap(e.d["base"]), unsnap(e.d["index"])
            if idx.op == "sliceobj":
                # deleting a slice never raises for lack of elements (on a dictionary it is a TypeError like any slice key; not modelled)
                self.sites_discharged += 1
                return out
            kinds = self._subscript_exc(ex, res, base, idx, e)
            for x in kinds:
                esc(x, "del %s[%s]" % (show(base, 3), show(idx, 3)))
            if not kinds:
                self.sites_discharged += 1
            return out
        if k == "mutate":
            how = e.d.get("how")
            if how == "dictpop" and not e.d.get("has_default"):
                self.sites_examined += 1
                if self._key_known(ex, unsnap(e.d["obj"]), unsnap(e.d["index"]), e):
                    self.sites_discharged += 1
                else:
                    esc("KeyError", "%s.pop(%s)" % (show(e.d["obj"], 3), show(e.d["index"], 3)))
            if how == "pop":
                self.sites_examined += 1
                if e.d.get("exact_len"):
                    self.sites_discharged += 1
                elif self._len_lb(unsnap(e.d["obj"]), e) >= 1:
                    self.sites_discharged += 1
                else:
                    esc("IndexError", "%s.pop()" % show(e.d["obj"], 3))
            return out
        if k == "extcall":
            return self._extcall(ex, res, e, fn, out, esc)
        if k == "mcall":
            return self._mcall(ex, res, e, fn, out, esc)
        if k == "dyncall":
            return self._dyncall(ex, res, e, fn, out, esc)
        if k == "op":
            op = e.d.get("op")
            if op in ("Mod", "FloorDiv", "Div") and not self.arith_total:
                a, b = e.d["args"]
                tb = type_of(ex, unsnap(a))
                if tb <= frozenset(["str", "bytes"]) and "?" not in tb:
                    return out
                if not (is_const(unsnap(b)) and cval(unsnap(b)) != 0):
                    if not self._nonzero(unsnap(b), e):
                        self.sites_examined += 1
                        esc("ZeroDivisionError", "%s %s %s" % (show(a, 3), op, show(b, 3)))
            return out
        if k == "new":
            c: ClassInfo = e.d["cls"]
            init = c.lookup("__init__")
            if init is None:
                pass
            return out
        return out

    # ------------------------------------------------------------------ helpers: subscripts
    def _subscript_exc(self, ex, res, base: Term, idx: Term, e: Event) -> List[str]:
        tb = type_of(ex, base, res.state) if base.op == "ref" and res.state is not None else type_of(ex, base)
        tb = self._refine_type(ex, base, tb, e)
        seq = frozenset(["list", "tuple", "bytes", "str", "bytearray"])
        if base.op == "static":
            v = ex.statics.get(base.args[0])
            if isinstance(v, dict):
                if self._key_known(ex, base, idx, e):
                    return []
                return ["KeyError"]
            if isinstance(v, (list, tuple)):
                self._cur_ex = ex
                if self._index_in_range(idx, len(v), e):
                    return []
                return ["IndexError"]
        if "?" not in tb and tb <= frozenset(["dict"]):
            return [] if self._key_known(ex, base, idx, e) else ["KeyError"]
        if "?" not in tb and tb <= seq:
            return [] if self._index_safe(ex, base, idx, e) else ["IndexError"]
        if tb and "?" not in tb and all(t.startswith("obj:") for t in tb):
            return []  # user-defined __getitem__ is analysed as a call
        if self.int_index_means_sequence:
            ti = type_of(ex, idx)
            if (ti <= frozenset(["int", "bool"]) and "?" not in ti) or idx.op in ("param", "loopvar", "loopexit", "index") or (idx.op == "elem" and unsnap(idx.args[0]).op == "range"):
                return [] if self._index_safe(ex, base, idx, e) else ["IndexError"]
        # unknown shape: a lookup that may fail either way
        if self._index_safe(ex, base, idx, e) and is_const(idx) and isinstance(cval(idx), int):
            # safe as a sequence index; as a mapping lookup unknown
            return ["KeyError"]
        if self._key_known(ex, base, idx, e):
            return []
        return ["IndexError|KeyError"]

    def _refine_type(self, ex, base: Term, tb, e: Event):
        if "?" not in tb:
            return tb
        # annotations of parameters of the lexical function
        if base.op == "param" and e.fn is not None:
            from .types import ann_type

            for a in e.fn.node.args.posonlyargs + e.fn.node.args.args + e.fn.node.args.kwonlyargs:
                if a.arg == base.args[0] and a.annotation is not None:
                    t = ann_type(ex, e.fn.module, a.annotation)
                    if t is not None:
                        return t - frozenset(["none"]) if len(t) > 1 else t
        # isinstance facts
        for (f, pol) in e.facts:
            if f.op == "isinst" and unsnap(f.args[0]) is base and pol:
                c = f.args[1]
                if c.op == "builtin":
                    return frozenset([c.args[0]])
        return tb

    def _facts(self, e: Event):
        return [rel(f, pol) for (f, pol) in e.facts]

    def _len_lb(self, x: Term, e: Event) -> int:
        """lower bound of len(x) implied by the path facts"""
        lb = 0
        if is_const(x) and hasattr(cval(x), "__len__"):
            return len(cval(x))
        mc = meth_call(x)
        if mc and mc[1] == "to_bytes" and mc[2] and is_const(mc[2][0]):
            return cval(mc[2][0])
        if mc and mc[1] == "digest":
            return 16
        if x.op == "tuple":
            return len(x.args[0])
        for r in self._facts(e):
            for a in ([r] if r[0] == "rel" else (r[1] if r[0] == "and" else [])):
                if a[0] != "rel":
                    continue
                op, l, rr = a[1], a[2], a[3]
                if op == "Truthy" and unsnap(l) is x:
                    lb = max(lb, 1)
                if op == "Truthy":
                    # `if len(x) % k:` -- a non-zero remainder needs len(x) >= 1
                    u = unsnap(l)
                    if u.op == "bin" and u.args[0] == "Mod" and unsnap(u.args[1]).op == "len" and unsnap(unsnap(u.args[1]).args[0]) is x and is_const(u.args[2]) and isinstance(cval(u.args[2]), int) and cval(u.args[2]) > 0:
                        lb = max(lb, 1)
                    # `if len(x) & k:` -- 0 & k is 0, so a non-zero result needs len(x) >= 1
                    if u.op == "bin" and u.args[0] == "BitAnd" and any(unsnap(w).op == "len" and unsnap(unsnap(w).args[0]) is x for w in u.args[1:]):
                        lb = max(lb, 1)
                if rr is None:
                    continue
                l, rr = unsnap(l), unsnap(rr)
                # len(x) OP const  /  const OP len(x)
                if l.op == "len" and unsnap(l.args[0]) is x and is_const(rr) and isinstance(cval(rr), int):
                    k = cval(rr)
                    if op == "Eq":
                        lb = max(lb, k)
                    elif op == "GtE":
                        lb = max(lb, k)
                    elif op == "Gt":
                        lb = max(lb, k + 1)
                    elif op == "NotEq" and k == 0:
                        lb = max(lb, 1)
                if rr.op == "len" and unsnap(rr.args[0]) is x and is_const(l) and isinstance(cval(l), int):
                    k = cval(l)
                    if op == "Eq":
                        lb = max(lb, k)
                    elif op == "LtE":
                        lb = max(lb, k)
                    elif op == "Lt":
                        lb = max(lb, k + 1)
                    elif op == "NotEq" and k == 0:
                        lb = max(lb, 1)
                if op == "In" and l.op == "len" and unsnap(l.args[0]) is x and is_const(rr) and isinstance(cval(rr), (tuple, list)) and cval(rr):
                    lb = max(lb, min(cval(rr)))
                # len(x) % k == c  with c >= 1  ->  len(x) >= c
                for u, v in ((l, rr), (rr, l)):
                    if op == "Eq" and u.op == "bin" and u.args[0] == "Mod" and unsnap(u.args[1]).op == "len" and unsnap(unsnap(u.args[1]).args[0]) is x and is_const(v) and isinstance(cval(v), int) and cval(v) >= 1:
                        lb = max(lb, cval(v))
                    if op == "NotEq" and u.op == "bin" and u.args[0] == "Mod" and unsnap(u.args[1]).op == "len" and unsnap(unsnap(u.args[1]).args[0]) is x and is_const(v) and cval(v) == 0 and is_const(u.args[2]) and isinstance(cval(u.args[2]), int) and cval(u.args[2]) > 0:
                        lb = max(lb, 1)
        return lb

    def _index_in_range(self, idx: Term, n: int, e: Event) -> bool:
        if is_const(idx) and isinstance(cval(idx), int):
            return -n <= cval(idx) < n
        # (x & 0xFF) style indexes into 256-entry tables
        if idx.op == "bin" and idx.args[0] == "BitAnd":
            for a in (idx.args[1], idx.args[2]):
                if is_const(a) and isinstance(cval(a), int) and 0 <= cval(a) < n:
                    return True
        if idx.op == "bin" and idx.args[0] == "Mod" and is_const(idx.args[2]) and isinstance(cval(idx.args[2]), int) and 0 < cval(idx.args[2]) <= n:
            return True
        # the path to the lookup has tested the index: 0 <= idx <= n - 1 follows from the path facts
        try:
            from .facts import Facts

            F = Facts(self._cur_ex) if getattr(self, "_cur_ex", None) is not None else None
            if F is not None:
                F.add_event_facts(e)
                if F.entails(idx) and F.entails(mk("bin", "Sub", C(n - 1), idx)):
                    return True
        except RecursionError:
            pass
        return False

    def _index_safe(self, ex, base: Term, idx: Term, e: Event) -> bool:
        if is_const(idx) and isinstance(cval(idx), int):
            i = cval(idx)
            need = i + 1 if i >= 0 else -i
            if self._len_lb(base, e) >= need:
                return True
        if idx.op in ("index",):
            return True
        # linear reasoning over the path facts (Fourier-Motzkin): 0 <= idx < len(base)
        try:
            from .facts import Facts

            F = Facts(ex)
            F.add_event_facts(e)
            lb = mk("len", base)
            if is_const(idx) and isinstance(cval(idx), int) and cval(idx) < 0:
                if F.entails(mk("bin", "Add", lb, idx)):
                    return True
            elif F.entails(idx) and F.entails(mk("bin", "Sub", mk("bin", "Sub", lb, idx), C(1))):
                return True
        except RecursionError:
            pass
        # index produced by iterating range(len(base))
        if idx.op == "elem":
            src = unsnap(idx.args[0])
            if src.op == "range":
                a = [unsnap(x) for x in src.args[0]]
                hi = a[1] if len(a) >= 2 else a[0]
                if hi.op == "len" and unsnap(hi.args[0]) is base:
                    return True
        return False

    def _key_known(self, ex, base: Term, key: Term, e: Event) -> bool:
        if base.op == "static":
            d = ex.statics.get(base.args[0])
            if isinstance(d, dict):
                if is_const(key):
                    try:
                        return cval(key) in d
                    except TypeError:
                        return False
        for r in self._facts(e):
            for a in ([r] if r[0] == "rel" else (r[1] if r[0] == "and" else [])):
                if a[0] == "rel" and a[1] == "In" and a[3] is not None:
                    if unsnap(a[2]) is key and unsnap(a[3]) is base:
                        return True
                    # key in (k1, k2, ...) and the table has all of them
                    if unsnap(a[2]) is key and is_const(unsnap(a[3])) and base.op == "static":
                        d = ex.statics.get(base.args[0])
                        try:
                            if isinstance(d, dict) and all(k in d for k in cval(unsnap(a[3]))):
                                return True
                        except TypeError:
                            pass
        return False

    def _nonzero(self, t: Term, e: Event) -> bool:
        for r in self._facts(e):
            if r[0] == "rel" and r[1] == "NotEq" and r[3] is not None and ((unsnap(r[2]) is t and is_const(r[3]) and cval(r[3]) == 0) or (unsnap(r[3]) is t and is_const(r[2]) and cval(r[2]) == 0)):
                return True
            if r[0] == "rel" and r[1] == "Truthy" and unsnap(r[2]) is t:
                return True
        return False

    def _unpack_safe(self, ex, v: Term, n: int) -> bool:
        if v.op == "elem":
            inner = unsnap(v.args[0])
            if inner.op == "iterview" and inner.args[0] in ("items", "enumerate", "zip"):
                return n == 2 or inner.args[0] == "zip"
            mc = meth_call(inner)
            if mc and mc[1] == "items":
                return n == 2
            if inner.op == "call" and isinstance(inner.args[0], Term) and inner.args[0].op == "builtin" and inner.args[0].args[0] in ("sorted", "list") and inner.args[1]:
                return self._unpack_safe(ex, mk("elem", inner.args[1][0], 0), n)
            if inner.op == "tuple":
                return len(inner.args[0]) == n
        mc = meth_call(v)
        if mc and mc[1] in ("partition", "rpartition"):
            return n == 3
        bc = builtin_call(v)
        if bc and bc[0] == "divmod":
            return n == 2
        return False

    # ------------------------------------------------------------------ calls into builtins / stdlib
    def _extcall(self, ex, res, e, fn, out, esc):
        name = e.d["name"]
        A = [unsnap(a) for a in e.d["args"]]
        if e.d.get("certain_fail"):
            esc(e.d["certain_fail"], "%s(%s) (always fails)" % (name, ", ".join(show(a, 2) for a in A)))
            return out
        if name == "int" and A:
            ta = type_of(ex, A[0])
            if not (ta <= frozenset(["int", "bool"]) and "?" not in ta):
                self.sites_examined += 1
                if self._int_safe(A[0]) or self._hexlify_nonempty(ex, A[0], e):
                    self.sites_discharged += 1
                else:
                    esc("ValueError", "int(%s)" % ", ".join(show(a, 3) for a in A))
        elif name in ("binascii.unhexlify", "binascii.a2b_hex", "bytes.fromhex", "base64.b64decode", "binascii.a2b_base64"):
            self.sites_examined += 1
            esc("ValueError", "%s(%s)" % (name, show(A[0], 3) if A else ""))
        elif name == "bytes" and A:
            ta = type_of(ex, A[0])
            if not (ta <= frozenset(["bytes", "bytearray", "int"]) and "?" not in ta):
                if A[0].op in ("comp", "ref", "snap") or "list" in ta:
                    self.sites_examined += 1
                    esc("ValueError", "bytes(%s)" % show(A[0], 3))
        elif name == "open":
            esc("OSError", "open(%s)" % (show(A[0], 2) if A else ""), "environment")
        elif name == "next":
            self.sites_examined += 1
            if len(A) < 2:  # next(it, default) never raises StopIteration
                esc("StopIteration", "next(%s)" % (show(A[0], 2) if A else ""))
        elif name == "struct.unpack":
            self.sites_examined += 1
            # unpack fails only when len(data) != calcsize(fmt): an exact-length read of that many bytes (BytesReader.read returns n bytes or raises) cannot
            ok_len = False
            if len(A) == 2 and is_const(A[0]) and e.d.get("total") is not None:
                mc_ = meth_call(unsnap(A[1]))
                if mc_ and mc_[1] == "read" and len(mc_[2]) == 1 and is_const(mc_[2][0]) and cval(mc_[2][0]) == e.d["total"]:
                    ro = ex.obj(res.state, unsnap(mc_[0])) if res.state is not None else None
                    if ro is not None and ro.cls is not None and any(getattr(c_, "name", "") == "BytesReader" for c_ in ro.cls.mro()):
                        ok_len = True
            if ok_len:
                self.sites_discharged += 1
            else:
                esc("struct.error", "struct.unpack(%s)" % ", ".join(show(a, 2) for a in A))
        elif name in ("chr",):
            esc("ValueError", "chr(%s)" % (show(A[0], 2) if A else ""))
        elif name in ("os.urandom",):
            pass
        return out

    def _hexlify_nonempty(self, ex, a: Term, e: Event) -> bool:
        """int(binascii.hexlify(X), 16) cannot fail when X is provably non-empty"""
        bc = builtin_call(a)
        if not (bc and bc[0] in ("binascii.hexlify", "binascii.b2a_hex") and bc[1]):
            return False
        x = unsnap(bc[1][0])
        if self._len_lb(x, e) >= 1:
            return True
        try:
            from .facts import Facts

            F = Facts(ex)
            F.add_event_facts(e)
            return F.entails(mk("bin", "Sub", mk("len", x), C(1)))
        except RecursionError:
            return False

    def _int_safe(self, a: Term) -> bool:
        # int(m.group(i)) where the group is \d{N}: licensed by the regex structure (C12)
        mc = meth_call(a)
        if mc and mc[1] == "group":
            m = unsnap(mc[0])
            if m.op == "call" and isinstance(m.args[0], Term) and m.args[0].op == "ext" and m.args[0].args[0].startswith("re.") and m.args[1] and is_const(m.args[1][0]) and mc[2] and is_const(mc[2][0]):
                from . import regexfmt

                try:
                    items = regexfmt.regex_items(cval(m.args[1][0]))
                except Exception:
                    return False
                for it in items:
                    if it[0] == "num" and it[2] == cval(mc[2][0]):
                        return True
        return False

    def _mcall(self, ex, res, e, fn, out, esc):
        name = e.d["name"]
        recv = unsnap(e.d["recv"])
        A = [unsnap(a) for a in e.d["args"]]
        if e.d.get("certain_fail"):
            esc(e.d["certain_fail"], "%s.%s(...) (always fails)" % (show(recv, 2), name))
            return out
        tr = type_of(ex, recv)
        if name == "to_bytes":
            self.sites_examined += 1
            if self._to_bytes_safe(ex, recv, A, e):
                self.sites_discharged += 1
            else:
                esc("OverflowError", "%s.to_bytes(%s)" % (show(recv, 3), ", ".join(show(a, 2) for a in A)))
            return out
        if name == "decode":
            self.sites_examined += 1
            esc("UnicodeDecodeError", "%s.decode()" % show(recv, 3))
            return out
        if name == "index" and not (tr <= frozenset(["obj"])):
            self.sites_examined += 1
            esc("ValueError", "%s.index(...)" % show(recv, 3))
            return out
        if name == "remove":
            esc("ValueError", "%s.remove(...)" % show(recv, 3))
            return out
        if name == "pop" and "?" in tr:
            if len(A) < 2:
                self.sites_examined += 1
                esc("IndexError|KeyError", "%s.pop(%s)" % (show(recv, 3), ", ".join(show(a, 2) for a in A)))
            return out
        if name == "format":
            self._format_types(ex, recv, e, esc)
            return out
        if name in MUT_SAFE_METHODS:
            return out
        if name in IO_METHODS and e.d.get("ext_base") is None and recv.op in ("param", "phi", "call", "attr", "sub") and self._is_stream(ex, recv):
            return out
        # dynamic dispatch on a repo method name
        cands = self._dispatch(ex, res, recv, name, e)
        if cands is None:
            return out
        if not cands:
            self.unresolved.append("%s %s.%s" % (e.where, show(recv, 2), name))
            return out
        for (fi2, cls2) in cands:
            for s in self.escapes(fi2, cls2):
                out.append(s.via("%s -> %s" % (e.where, fi2.qualname)))
        return out

    def _is_stream(self, ex, recv: Term) -> bool:
        return True

    def _dyncall(self, ex, res, e, fn, out, esc):
        f = unsnap(e.d["fnterm"])
        if e.d.get("not_callable"):
            esc("TypeError", "call of non-callable %s" % show(f, 2))
            return out
        if f.op == "attr":
            cands = self._dispatch(ex, res, unsnap(f.args[0]), f.args[1], e)
            if cands:
                for (fi2, cls2) in cands:
                    for s in self.escapes(fi2, cls2):
                        out.append(s.via("%s -> %s" % (e.where, fi2.qualname)))
                return out
        if f.op in ("param", "loopvar", "phi", "elem", "sub"):
            self.unresolved.append("%s call of %s" % (e.where, show(f, 2)))
        return out

    def _dispatch(self, ex, res, recv: Term, name: str, e: Event):
        """candidate implementations of recv.name(...) : list of (FuncInfo, dynamic class) ; None = not a repo method"""
        # typed receiver
        tr = type_of(ex, recv)
        classes: List[ClassInfo] = []
        for t in tr:
            if t.startswith("obj:"):
                c = self.prog.classes.get(t[4:])
                if c is not None:
                    classes.append(c)
        # classes looked up in a static dispatch table
        tbl_t = None
        if recv.op == "sub" and unsnap(recv.args[0]).op == "static":
            tbl_t = unsnap(recv.args[0])
        else:
            mcr = meth_call(recv)
            if mcr and mcr[1] == "get" and unsnap(mcr[0]).op == "static" and 1 <= len(mcr[2]) <= 2 and (len(mcr[2]) == 1 or unsnap(mcr[2][1]) is NONE):
                tbl_t = unsnap(mcr[0])  # TABLE.get(key): an entry of the table (None is a matter of the attribute access, not of the dispatch)
        if tbl_t is not None:
            tbl = ex.statics.get(tbl_t.args[0])
            if isinstance(tbl, dict):
                out = []
                for v in tbl.values():
                    if isinstance(v, Term) and v.op == "class":
                        c = self.prog.classes.get(v.args[0])
                        r = c.lookup(name) if c else None
                        if r and isinstance(r[1], FuncInfo):
                            out.append((r[1], c))
                return out
        if recv.op == "call" and isinstance(recv.args[0], Term) and recv.args[0].op == "func":
            # result of a repo function: use its return annotation / known factories
            fq = recv.args[0].args[0]
            if fq.endswith("create_AES128"):
                t = ex.registry.get("AES128")
                c = self.prog.classes.get(t.args[0]) if t is not None else self.prog.classes.get("bec2format.crypto.AES128")
                classes = [c]
            elif fq.endswith("select_encryptor"):
                a0 = unsnap(recv.args[1][0]) if recv.args[1] else None
                base = None
                if a0 is not None and a0.op == "class":
                    bc = self.prog.classes.get(a0.args[0])
                    try:
                        req = bc.lookup("REQUIRED_ENCRYPTOR_CLS")
                        tgt = self.prog.resolve_expr_static(req[0].module, req[1]) if req else None
                        base = tgt if isinstance(tgt, ClassInfo) else None
                    except Exception:
                        base = None
                if base is None:
                    base = self.prog.classes.get("bec2format.bec2file.Encryptor")
                classes = [base] + self.prog.subclasses(base)
                out = []
                seen = set()
                for c in classes:
                    r = c.lookup(name)
                    if r and isinstance(r[1], FuncInfo) and id(r[1].node) not in seen:
                        seen.add(id(r[1].node))
                        out.append((r[1], c))
                return out
        if recv.op == "attr" and recv.args[1] == "cipher" and name in ("encrypt", "decrypt", "mac"):
            t = ex.registry.get("AES128")
            c = self.prog.classes.get(t.args[0]) if t is not None else self.prog.classes.get("bec2format.crypto.AES128")
            classes = [c]
        if classes:
            out = []
            seen = set()
            replaced = self._replaced_bases(ex)
            for c in classes:
                for k in [c] + self.prog.subclasses(c):
                    if k.qualname in replaced:
                        continue
                    r = k.lookup(name)
                    if r and isinstance(r[1], FuncInfo) and id(r[1].node) not in seen:
                        seen.add(id(r[1].node))
                        out.append((r[1], k))
            return out
        # name-based class-hierarchy analysis within the dispatch scope
        out = []
        seen = set()
        replaced = self._replaced_bases(ex)
        for c in self.prog.classes.values():
            if c.module.is_test or not self.dispatch_scope(c):
                continue
            if c.qualname in replaced:
                continue  # abstract registry base: every use goes through the registered implementation
            m = c.methods.get(name) or c.injected.get(name)
            if isinstance(m, FuncInfo) and id(m.node) not in seen:
                seen.add(id(m.node))
                out.append((m, c))
        if not out:
            return None
        return out

    def _replaced_bases(self, ex) -> set:
        replaced = set()
        for t in list(ex.global_overrides.values()) + list(getattr(ex, "item_overrides", {}).values()):
            if t.op == "class":
                rc = self.prog.classes.get(t.args[0])
                if rc is not None:
                    for b in rc.mro()[1:]:
                        if isinstance(b, ClassInfo):
                            replaced.add(b.qualname)
        return replaced

    def _to_bytes_safe(self, ex, recv: Term, A, e: Event) -> bool:
        if not (A and is_const(A[0]) and isinstance(cval(A[0]), int)):
            return False
        w = cval(A[0])
        if self._int_ub(ex, recv, e) < (1 << (8 * w)):
            return True
        # a counter of loop iterations / a length of an in-memory object written in 8 or more bytes: 2**64 iterations or items are not reachable
        return w >= 8 and self._is_count(ex, recv)

    def _is_count(self, ex, t: Term, depth=0) -> bool:
        t = unsnap(t)
        if depth > 4:
            return False
        if is_const(t):
            return isinstance(cval(t), int) and not isinstance(cval(t), bool) and 0 <= cval(t) < (1 << 32)
        if t.op in ("len", "index"):
            return True
        if t.op == "bin" and t.args[0] == "Add":
            return self._is_count(ex, t.args[1], depth + 1) and self._is_count(ex, t.args[2], depth + 1)
        if t.op in ("loopvar", "loopexit"):
            lr = ex.loops.get(t.args[0])
            if lr is None:
                return False
            init, nxt = lr.init.get(t.args[1]), lr.next.get(t.args[1])
            if init is None or nxt is None or not self._is_count(ex, init, depth + 1):
                return False
            n = unsnap(nxt)
            lv = mk("loopvar", t.args[0], t.args[1])
            if n is lv:
                return True
            if n.op == "bin" and n.args[0] == "Add":
                a, b = unsnap(n.args[1]), unsnap(n.args[2])
                return (a is lv and is_const(b) and isinstance(cval(b), int) and 0 <= cval(b) <= 256) or (b is lv and is_const(a) and isinstance(cval(a), int) and 0 <= cval(a) <= 256)
        return False

    def _int_ub(self, ex, t: Term, e: Event, depth=0):
        """upper bound of a non-negative integer term, or +inf"""
        INF = float("inf")
        t = unsnap(t)
        if depth > 8:
            return INF
        if is_const(t) and isinstance(cval(t), int) and not isinstance(cval(t), bool):
            return cval(t) if cval(t) >= 0 else INF
        if t.op == "call" and isinstance(t.args[0], Term) and t.args[0].op == "builtin" and t.args[0].args[0] == "int.from_bytes" and t.args[1]:
            src = unsnap(t.args[1][0])
            mc = meth_call(src)
            if mc and mc[1] == "read" and mc[2] and is_const(mc[2][0]):
                return (1 << (8 * cval(mc[2][0]))) - 1
            if src.op == "slice" and is_const(src.args[1]) and is_const(src.args[2]) and isinstance(cval(src.args[1]), int) and isinstance(cval(src.args[2]), int):
                return (1 << (8 * max(0, cval(src.args[2]) - cval(src.args[1])))) - 1
            return INF
        if t.op == "bin":
            op, a, b = t.args
            ua, ub = self._int_ub(ex, a, e, depth + 1), self._int_ub(ex, b, e, depth + 1)
            if op == "BitAnd":
                return min(ua, ub)
            if op == "RShift" and is_const(unsnap(b)):
                return ua if ua == INF else ua >> cval(unsnap(b))
            if op == "Add":
                return ua + ub
            if op == "Mod" and ub != INF:
                return ub - 1 if ub >= 1 else INF
        if t.op == "elem" or t.op == "sub":
            base = unsnap(t.args[0])
            tb = type_of(ex, base)
            if tb <= frozenset(["bytes", "bytearray"]) and "?" not in tb:
                return 255
        if t.op == "len":
            return INF  # unbounded in principle; discharged per site by a reason entry
        if t.op == "static":
            return INF
        def table_entry(x):
            """name of the module-level table if x is TABLE[key] or TABLE.get(key) / TABLE.get(key, None) (an entry of the table, or None)"""
            x = unsnap(x)
            if x.op == "sub" and unsnap(x.args[0]).op == "static":
                return unsnap(x.args[0]).args[0]
            mcx = meth_call(x)
            if mcx and mcx[1] == "get" and unsnap(mcx[0]).op == "static" and 1 <= len(mcx[2]) <= 2 and (len(mcx[2]) == 1 or (is_const(mcx[2][1]) and cval(mcx[2][1]) is None)):
                return unsnap(mcx[0]).args[0]
            return None

        if t.op == "sub" and is_const(unsnap(t.args[1])) and table_entry(t.args[0]) is not None:
            v = ex.statics.get(table_entry(t.args[0]))
            try:
                k = cval(unsnap(t.args[1]))
                vals = [x[k] for x in (v.values() if isinstance(v, dict) else v)]
                vals = [x for x in vals if x is not None]
                if all(isinstance(x, int) and x >= 0 for x in vals):
                    return max(vals) if vals else 0
            except Exception:
                pass
        if t.op == "sub" and unsnap(t.args[0]).op == "static":
            v = ex.statics.get(unsnap(t.args[0]).args[0])
            try:
                vals = list(v.values()) if isinstance(v, dict) else list(v)
                if all(isinstance(x, int) and x >= 0 for x in vals):
                    return max(vals)
            except Exception:
                pass
        return INF

    def _format_types(self, ex, recv: Term, e: Event, esc):
        """numeric format spec applied to a value that may be None / non-numeric -> TypeError / ValueError"""
        from . import regexfmt

        alts = []

        def collect(t):
            t = unsnap(t)
            if t.op == "phi":
                collect(t.args[1])
                collect(t.args[2])
            else:
                alts.append(t)

        collect(recv)
        for a in alts:
            if not (is_const(a) and isinstance(cval(a), str)):
                continue
            try:
                items = regexfmt.format_items(cval(a))
            except Exception:
                continue
            pos = 0
            for it in items:
                if it[0] in ("num", "any"):
                    field = it[2] if it[0] == "num" else it[1]
                    if it[0] != "num":
                        if field == "":
                            pos += 1
                        continue
                    if field == "":
                        v = e.d["args"][pos] if pos < len(e.d["args"]) else None
                        pos += 1
                    elif field.isdigit():
                        v = e.d["args"][int(field)] if int(field) < len(e.d["args"]) else None
                    else:
                        v = e.d["kwargs"].get(field.split(".")[0].split("[")[0])
                    if v is None:
                        continue
                    tv = type_of(ex, unsnap(v))
                    if "none" in tv:
                        esc("TypeError", "'%s'.format(%s=%s)" % (cval(a)[:30], field, show(v, 3)))


def exc_in_family(h: Hier, exc: str, allowed: List[str]) -> bool:
    for alt in exc.split("|"):
        if not any(h.is_sub(alt, a) for a in allowed):
            return False
    return True
