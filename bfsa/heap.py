"""Heap objects, states and events of the structural abstract interpreter."""
from __future__ import annotations

from typing import Any, Dict, List, Optional, Tuple

from .terms import Term, fresh_uid
from .load import AnalysisError, FuncInfo


class TK:
    """a symbolic term used as key of an exact dictionary (concrete-control scenarios): identity of the term is the key"""

    __slots__ = ("term",)

    def __init__(self, term):
        self.term = term

    def __hash__(self):
        return hash(("TK", self.term.uid))

    def __eq__(self, other):
        return isinstance(other, TK) and other.term is self.term

    def __repr__(self):
        return "TK(%s)" % self.term.uid


class HObj:
    """kind: list | dict | obj | bytearray | set"""

    __slots__ = ("kind", "items", "exact", "kv", "writes", "cls", "attrs", "origin", "version", "label", "created_ctx", "base", "is_gen", "sure", "is_stream", "is_iter")

    def __init__(self, kind, cls=None, origin=None, label=""):
        self.kind = kind
        self.items: List[Any] = []  # list: exact -> [Term]; else [(Term, ctx, how)]
        self.exact = True
        self.kv: Dict[Any, Term] = {}  # dict, exact: const key -> Term (insertion ordered)
        self.writes: List[Tuple[Term, Term, tuple]] = []  # dict, non exact writes
        self.cls = cls
        self.attrs: Dict[str, Term] = {}
        self.origin = origin  # Term naming a symbolic (parameter) object
        self.version = 0
        self.label = label
        self.created_ctx = ()
        self.base = None  # bytearray(base) / list(base) source term when not exact
        self.is_gen = False
        self.is_stream = False  # bytearray standing for a write-only io.BytesIO()
        self.is_iter = False  # list standing for an iterator over known items (concrete-control mode): next() takes the first one away
        self.sure = None  # dict: keys certainly present when not exact

    def clone(self) -> "HObj":
        o = HObj(self.kind, self.cls, self.origin, self.label)
        o.items = list(self.items)
        o.exact = self.exact
        o.kv = dict(self.kv)
        o.writes = list(self.writes)
        o.attrs = dict(self.attrs)
        o.version = self.version
        o.created_ctx = self.created_ctx
        o.base = self.base
        o.is_gen = self.is_gen
        o.is_stream = self.is_stream
        o.is_iter = self.is_iter
        o.sure = set(self.sure) if self.sure is not None else None
        return o


class State:
    __slots__ = ("envs", "heap", "facts", "ctx")

    def __init__(self):
        self.envs: List[Dict[str, Term]] = []
        self.heap: Dict[int, HObj] = {}
        self.facts: Tuple[Tuple[Term, bool], ...] = ()
        self.ctx: Tuple[tuple, ...] = ()

    def fork(self) -> "State":
        s = State()
        s.envs = [dict(e) for e in self.envs]
        s.heap = {k: v.clone() for k, v in self.heap.items()}
        s.facts = self.facts
        s.ctx = self.ctx
        return s


class Event:
    __slots__ = ("uid", "kind", "fn", "node", "ctx", "facts", "d", "stack")

    def __init__(self, uid, kind, fn, node, ctx, facts, stack, **d):
        self.uid = uid
        self.kind = kind
        self.fn = fn  # FuncInfo (lexical)
        self.node = node
        self.ctx = ctx
        self.facts = facts
        self.stack = stack  # tuple of FuncInfo qualnames (call stack, outermost first)
        self.d = d

    def __getattr__(self, k):
        try:
            return self.d[k]
        except KeyError:
            raise AttributeError(k)

    @property
    def line(self):
        return getattr(self.node, "lineno", 0)

    @property
    def where(self):
        return "%s:%d" % (self.fn.file if self.fn else "?", self.line)

    def __repr__(self):
        return "<%s#%d %s %s>" % (self.kind, self.uid, self.where, {k: v for k, v in self.d.items() if k not in ("state",)})


def frames_of(ctx, kinds=("if", "loop", "try", "except", "choice", "comp", "tryelse")):
    return [f for f in ctx if f[0] in kinds]


class Unsupported(AnalysisError):
    pass


class PathDead(Exception):
    """every path through the evaluated construct raised"""


BUILTIN_EXC = {
    "Exception", "BaseException", "ValueError", "TypeError", "KeyError", "IndexError", "LookupError", "AssertionError",
    "NotImplementedError", "RuntimeError", "OverflowError", "ZeroDivisionError", "ArithmeticError", "AttributeError",
    "StopIteration", "OSError", "IOError", "EOFError", "UnicodeDecodeError", "UnicodeEncodeError", "UnicodeError", "NameError",
    "ImportError", "MemoryError", "RecursionError", "FileNotFoundError", "GeneratorExit", "KeyboardInterrupt", "SystemExit",
    "BufferError", "DeprecationWarning", "Warning", "UserWarning", "FloatingPointError", "PermissionError",
}


class LoopRec:
    def __init__(self, lid, kind, node, fn):
        self.id = lid
        self.kind = kind  # for | while | comp
        self.node = node
        self.fn = fn
        self.init: Dict[str, Term] = {}
        self.next: Dict[str, Term] = {}
        self.cond: Optional[Term] = None
        self.iter: Optional[Term] = None
        self.target: Optional[Term] = None
        self.breaks: List[Tuple[Dict[str, Term], tuple]] = []
        self.has_else = False
        self.exit_facts = ()
        self.unrolled = 0
        self.body_events: Tuple[int, int] = (0, 0)
        self.elt: Optional[Term] = None  # comprehension element
        self.comp_kind = None
        self.conds: List[Term] = []


class FrameInfo:
    def __init__(self, fi: FuncInfo, closure_frame: Optional[int], self_term=None):
        self.fi = fi
        self.closure_frame = closure_frame
        self.uid = fresh_uid()  # identity of this activation: a closure made here that outlives it keeps the frame's final variables
        self.made_closure = False
        self.captured: Optional[Dict[str, Term]] = None  # variables of the (finished) defining activation, for a closure called after it returned
        self.returns: List[Tuple[Term, State]] = []
        self.yields: Optional[int] = None  # oid of the HList collecting yields
        self.self_term = self_term
        self.globals_decl: set = set()
        self.try_stack: List[int] = []
        self.handler_stack: List[Tuple[int, tuple]] = []


