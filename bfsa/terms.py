"""Hash-consed symbolic terms used by the structural abstract interpreter (symexec)."""
from __future__ import annotations

from typing import Any, Dict, Tuple


class Term:
    __slots__ = ("op", "args", "uid", "_ty")
    _table: Dict[Tuple, "Term"] = {}
    _next = 0

    def __repr__(self):
        return show(self)


def _key(a):
    if isinstance(a, Term):
        return ("T", a.uid)
    if isinstance(a, tuple):
        if type(a) is not tuple:
            return ("t:" + getattr(a, "_cls_qual", type(a).__name__),) + tuple(_key(x) for x in a)
        return ("t",) + tuple(_key(x) for x in a)
    if isinstance(a, (bool, int, float, str, bytes, type(None))):
        return (type(a).__name__, a)
    if isinstance(a, (list, dict, set, bytearray, frozenset)):
        return ("obj", type(a).__name__, repr(a))
    return ("id", id(a))


def mk(op: str, *args) -> Term:
    k = (op,) + tuple(_key(a) for a in args)
    t = Term._table.get(k)
    if t is None:
        t = Term()
        t.op = op
        t.args = args
        t.uid = Term._next
        t._ty = None
        Term._next += 1
        Term._table[k] = t
    return t


def C(v) -> Term:
    """constant"""
    return mk("const", v)


NONE = C(None)
TRUE = C(True)
FALSE = C(False)

_uid = [0]


def fresh_uid() -> int:
    _uid[0] += 1
    return _uid[0]


def sym(tag: str) -> Term:
    return mk("sym", tag, fresh_uid())


def is_const(t: Term) -> bool:
    return t.op == "const"


def cval(t: Term):
    assert t.op == "const"
    return t.args[0]


def subterms(t: Term, seen=None):
    """all distinct subterms (post-order)"""
    if seen is None:
        seen = set()
    stack = [t]
    out = []
    while stack:
        x = stack.pop()
        if not isinstance(x, Term) or x.uid in seen:
            continue
        seen.add(x.uid)
        out.append(x)
        for a in x.args:
            if isinstance(a, Term):
                stack.append(a)
            elif isinstance(a, tuple):
                for y in a:
                    if isinstance(y, Term):
                        stack.append(y)
                    elif isinstance(y, tuple):
                        stack.extend(z for z in y if isinstance(z, Term))
    return out


def contains(t: Term, pred) -> bool:
    return any(pred(x) for x in subterms(t))


def subst(t: Term, mapping: Dict[int, Term], _memo=None) -> Term:
    """replace subterms (keyed by uid)"""
    if _memo is None:
        _memo = {}
    if not isinstance(t, Term):
        return t
    if t.uid in mapping:
        return mapping[t.uid]
    if t.uid in _memo:
        return _memo[t.uid]
    new_args = []
    changed = False
    for a in t.args:
        if isinstance(a, Term):
            b = subst(a, mapping, _memo)
        elif isinstance(a, tuple):
            b = tuple(subst(x, mapping, _memo) if isinstance(x, Term) else (tuple(subst(y, mapping, _memo) if isinstance(y, Term) else y for y in x) if isinstance(x, tuple) else x) for x in a)
        else:
            b = a
        if b is not a and b != a:
            changed = True
        new_args.append(b)
    r = mk(t.op, *new_args) if changed else t
    _memo[t.uid] = r
    return r


def xor_canon(*ts: Term) -> Term:
    """canonical XOR: flattened, constants folded, equal operands cancelled, operands ordered by term id"""
    c = 0
    leaves: Dict[int, Term] = {}
    stack = list(ts)
    while stack:
        t = stack.pop()
        while t.op == "snap":
            t = t.args[0]
        if t.op == "xor":
            stack.extend(t.args[0])
        elif t.op == "bin" and t.args[0] == "BitXor":
            stack.extend([t.args[1], t.args[2]])
        elif is_const(t) and isinstance(cval(t), int) and not isinstance(cval(t), bool):
            c ^= cval(t)
        elif t.uid in leaves:
            del leaves[t.uid]
        else:
            leaves[t.uid] = t
    ls = [leaves[k] for k in sorted(leaves)]
    if c:
        ls.append(C(c))
    if not ls:
        return C(0)
    if len(ls) == 1:
        return ls[0]
    return mk("xor", tuple(ls))


_BIN = {"Add": "+", "Sub": "-", "Mult": "*", "FloorDiv": "//", "Div": "/", "Mod": "%", "Pow": "**", "LShift": "<<", "RShift": ">>", "BitOr": "|", "BitAnd": "&", "BitXor": "^", "MatMult": "@"}
_CMP = {"Eq": "==", "NotEq": "!=", "Lt": "<", "LtE": "<=", "Gt": ">", "GtE": ">=", "In": "in", "NotIn": "not in", "Is": "is", "IsNot": "is not"}


def show(t, depth=6) -> str:
    if not isinstance(t, Term):
        if isinstance(t, tuple):
            return "(" + ", ".join(show(x, depth - 1) for x in t) + ")"
        return repr(t)
    if depth <= 0:
        return "…"
    o, a = t.op, t.args
    S = lambda x: show(x, depth - 1)
    if o == "const":
        r = repr(a[0])
        return r if len(r) < 60 else r[:57] + "..."
    if o == "param":
        return a[0]
    if o == "sym":
        return "?%s%d" % (a[0], a[1])
    if o == "ref":
        return "&%s%d" % (a[1] if len(a) > 1 else "obj", a[0])
    if o == "bin":
        return "(%s %s %s)" % (S(a[1]), _BIN.get(a[0], a[0]), S(a[2]))
    if o == "cmp":
        return "(%s %s %s)" % (S(a[1]), _CMP.get(a[0], a[0]), S(a[2]))
    if o == "un":
        return "%s(%s)" % ({"Not": "not ", "USub": "-", "Invert": "~", "UAdd": "+"}.get(a[0], a[0]), S(a[1]))
    if o == "and" or o == "or":
        return "(" + (" %s " % o).join(S(x) for x in a[0]) + ")"
    if o == "attr":
        return "%s.%s" % (S(a[0]), a[1])
    if o == "call":
        fn, args, kw = a[0], a[1], a[2]
        s = ", ".join([S(x) for x in args] + ["%s=%s" % (k, S(v)) for k, v in kw])
        ev = "#%d" % a[3] if len(a) > 3 and a[3] else ""
        return "%s(%s)%s" % (S(fn) if isinstance(fn, Term) else fn, s, ev)
    if o == "sub":
        return "%s[%s]" % (S(a[0]), S(a[1]))
    if o == "slice":
        return "%s[%s:%s%s]" % (S(a[0]), "" if a[1] is NONE else S(a[1]), "" if a[2] is NONE else S(a[2]), "" if a[3] is NONE else ":" + S(a[3]))
    if o == "tuple":
        return "(" + ", ".join(S(x) for x in a[0]) + ")"
    if o == "phi":
        return "phi(%s ? %s : %s)" % (S(a[0]), S(a[1]), S(a[2]))
    if o == "loopvar":
        return "%s@L%d" % (a[1], a[0])
    if o == "loopexit":
        return "%s@exitL%d" % (a[1], a[0])
    if o == "elem":
        return "elem(%s)" % S(a[0])
    if o == "func":
        return "<%s>" % a[0]
    if o == "class":
        return "<class %s>" % a[0]
    if o == "builtin":
        return a[0]
    if o == "ext":
        return a[0]
    if o == "bound":
        return "%s.<%s>" % (S(a[1]), a[0].split(".")[-1])
    if o == "len":
        return "len(%s)" % S(a[0])
    return "%s(%s)" % (o, ", ".join(S(x) for x in a))
