"""REGEX: structural comparison of str.format templates with regular expressions.

Both are brought to a sequence of items
   ("lit", text) | ("num", width, name_or_group) | ("any", name_or_group) | ("opt", [items])
format specs:  {x:0N} / {x:N} with integer argument -> ("num", N, x)  (at least N digits, zero padded)
               {x}                                   -> ("any", x)
regex:         (\\d{N}) -> ("num", N, group index);  (.*) -> ("any", group index);  literals;  ( ... )? -> ("opt", [...])
"""
from __future__ import annotations

import string
from typing import List, Tuple

try:
    import re._parser as sre_parse
    import re._constants as sre_c
except ImportError:  # pragma: no cover
    import sre_parse
    import sre_constants as sre_c


class NotSupported(Exception):
    pass


def format_items(fmt: str) -> List[Tuple]:
    out: List[Tuple] = []
    for lit, field, spec, conv in string.Formatter().parse(fmt):
        if lit:
            out.append(("lit", lit))
        if field is None:
            continue
        if conv:
            raise NotSupported("conversion !%s" % conv)
        if spec:
            s = spec
            zero = s.startswith("0")
            digits = s.lstrip("0")
            if s.endswith("d"):
                digits = digits[:-1]
            if digits == "" and zero:
                digits = "0"
            if not digits.isdigit():
                raise NotSupported("format spec %r" % spec)
            out.append(("num", int(digits), field, zero))
        else:
            out.append(("any", field))
    return _merge(out)


def _merge(items):
    out = []
    for it in items:
        if it[0] == "lit" and out and out[-1][0] == "lit":
            out[-1] = ("lit", out[-1][1] + it[1])
        else:
            out.append(it)
    return out


def regex_items(pattern: str) -> List[Tuple]:
    tree = sre_parse.parse(pattern)
    return _merge(_items(tree, [None]))


def _items(seq, cur_group) -> List[Tuple]:
    out: List[Tuple] = []
    for op, av in seq:
        name = str(op)
        if name == "LITERAL":
            out.append(("lit", chr(av)))
        elif name == "SUBPATTERN":
            gid, _, _, sub = av
            inner = list(sub)
            # (\d{N})
            if len(inner) == 1 and str(inner[0][0]) == "MAX_REPEAT":
                lo, hi, body = inner[0][1]
                body = list(body)
                if len(body) == 1 and str(body[0][0]) == "IN" and [str(x[0]) + ":" + str(x[1]) for x in body[0][1]] == ["CATEGORY:CATEGORY_DIGIT"] and lo == hi:
                    out.append(("num", lo, gid))
                    continue
                if len(body) == 1 and str(body[0][0]) == "ANY" and lo == 0 and str(hi) == "MAXREPEAT":
                    out.append(("any", gid))
                    continue
            out.append(("group", gid, _merge(_items(inner, cur_group))))
        elif name == "MAX_REPEAT":
            lo, hi, body = av
            body = list(body)
            if lo == 0 and hi == 1:
                sub = _merge(_items(body, cur_group))
                # unwrap a single group
                if len(sub) == 1 and sub[0][0] == "group":
                    out.append(("opt", sub[0][2], sub[0][1]))
                else:
                    out.append(("opt", sub, None))
            elif len(body) == 1 and str(body[0][0]) == "IN" and [str(x[0]) + ":" + str(x[1]) for x in body[0][1]] == ["CATEGORY:CATEGORY_DIGIT"] and lo == hi:
                out.append(("num", lo, None))
            elif len(body) == 1 and str(body[0][0]) == "ANY":
                out.append(("any", None))
            else:
                raise NotSupported("repeat")
        elif name == "AT":
            out.append(("at", str(av)))
        else:
            raise NotSupported("regex node %s" % name)
    return out


def is_end_anchored(pattern: str) -> bool:
    items = regex_items(pattern)
    return bool(items) and items[-1][0] == "at" and items[-1][1] in ("AT_END", "AT_END_STRING")


def sample(items) -> str:
    """a shortest string matched by the mandatory part of an item list"""
    s = ""
    for it in items:
        if it[0] == "lit":
            s += it[1]
        elif it[0] == "num":
            s += "1" * it[1]
        elif it[0] == "group":
            s += sample(it[2])
    return s
