"""GF2: integers as vectors of affine forms over input bits (Karr-style affine domain over GF(2)).

A value is a list of forms (LSB first); a form is a python int used as a bit set: bit i = coefficient of
input variable i, bit CONST = the constant 1.  Only operators that are affine over GF(2) on fixed-width
bit vectors are supported; anything else raises Unsupported (-> ANALYSIS-INCOMPLETE, never a guess).
"""
from __future__ import annotations

from typing import Callable, Dict, List, Optional

from ..heap import Unsupported
from ..terms import Term, cval, is_const

WIDTH = 48


class GF2:
    def __init__(self, nvars: int):
        self.nvars = nvars
        self.CONST = 1 << nvars

    def const(self, v: int) -> List[int]:
        if v < 0:
            raise Unsupported("negative constant in GF2 domain")
        if v >> WIDTH:
            raise Unsupported("constant wider than %d bits" % WIDTH)
        return [self.CONST if (v >> i) & 1 else 0 for i in range(WIDTH)]

    def var(self, first: int, width: int) -> List[int]:
        return [(1 << (first + i)) if i < width else 0 for i in range(WIDTH)]

    def xor(self, a, b):
        return [x ^ y for x, y in zip(a, b)]

    def and_const(self, a, c: int):
        return [x if (c >> i) & 1 else 0 for i, x in enumerate(a)]

    def shl(self, a, k: int):
        if any(a[WIDTH - k:]) if k else False:
            raise Unsupported("shift overflows analysis width")
        return [0] * k + a[: WIDTH - k]

    def shr(self, a, k: int):
        return a[k:] + [0] * k

    def or_(self, a, b):
        out = []
        for x, y in zip(a, b):
            if x and y:
                raise Unsupported("| of overlapping supports is not affine")
            out.append(x | y)
        return out

    def as_const(self, a) -> Optional[int]:
        v = 0
        for i, x in enumerate(a):
            if x == self.CONST:
                v |= 1 << i
            elif x:
                return None
        return v

    def width(self, a) -> int:
        w = 0
        for i, x in enumerate(a):
            if x:
                w = i + 1
        return w

    def eval(self, t: Term, leaf: Callable[[Term], Optional[List[int]]], memo: Dict[int, List[int]] = None) -> List[int]:
        if memo is None:
            memo = {}
        if t.uid in memo:
            return memo[t.uid]
        r = self._eval(t, leaf, memo)
        memo[t.uid] = r
        return r

    def _eval(self, t, leaf, memo):
        lf = leaf(t)
        if lf is not None:
            return lf
        E = lambda x: self.eval(x, leaf, memo)
        if is_const(t):
            v = cval(t)
            if isinstance(v, bool) or not isinstance(v, int):
                raise Unsupported("non-integer constant %r in GF2 domain" % (v,))
            return self.const(v)
        if t.op == "bin":
            op, l, r = t.args
            if op == "BitXor":
                return self.xor(E(l), E(r))
            if op in ("BitAnd",):
                a, b = E(l), E(r)
                ca, cb = self.as_const(a), self.as_const(b)
                if cb is not None:
                    return self.and_const(a, cb)
                if ca is not None:
                    return self.and_const(b, ca)
                raise Unsupported("& of two non-constant values is not affine")
            if op in ("LShift", "RShift"):
                k = self.as_const(E(r))
                if k is None or k > WIDTH:
                    raise Unsupported("shift by non-constant")
                return self.shl(E(l), k) if op == "LShift" else self.shr(E(l), k)
            if op == "BitOr":
                return self.or_(E(l), E(r))
            if op == "Mult":
                a, b = E(l), E(r)
                for x, y in ((a, b), (b, a)):
                    c = self.as_const(y)
                    if c is not None and c > 0 and c & (c - 1) == 0:
                        return self.shl(x, c.bit_length() - 1)
                raise Unsupported("multiplication is not affine")
            if op == "FloorDiv":
                c = self.as_const(E(r))
                if c is not None and c > 0 and c & (c - 1) == 0:
                    return self.shr(E(l), c.bit_length() - 1)
                raise Unsupported("division is not affine")
            if op == "Mod":
                c = self.as_const(E(r))
                if c is not None and c > 0 and c & (c - 1) == 0:
                    return self.and_const(E(l), c - 1)
                raise Unsupported("modulo is not affine")
            raise Unsupported("operator %s is not affine over GF(2)" % op)
        if t.op == "call" and isinstance(t.args[0], Term) and t.args[0].op == "builtin" and t.args[0].args[0] == "int" and len(t.args[1]) == 1:
            return E(t.args[1][0])
        raise Unsupported("term %s not interpretable in GF2 domain" % t.op)
