"""LANES: 32-bit words as four symbolic byte lanes; bytes as XOR-normal forms over S-box / GF(2^8)-multiplication terms.

A free-term (Herbrand) domain with AC-normalised XOR:   byte  =  const  ^  XOR{ mul(c, base) }
base atoms:  ("in", name)   input byte          ("S", byte_id) / ("Si", byte_id)   S-box of an interned byte value
mul(c, .) is GF(2^8) multiplication by a constant (polynomial 0x11B); it distributes over XOR and composes.
Words are [lane0(LSB) .. lane3(MSB)] plus a flag `hi` = bits >= 32 may be set (sign extension of struct '>i').
Table lookups T1..T8 / U1..U4 / S / Si expand by TABLE_SPEC -- the same spec from which rule C16.R1 re-generates the
literal tables, so the expansion is licensed exactly when R1 holds.
"""
from __future__ import annotations

from typing import Dict, List, Optional, Tuple

from ..heap import Unsupported
from ..terms import Term, cval, is_const

# table name -> (sbox kind or None, coefficients for lanes MSB..LSB)
TABLE_SPEC = {
    "S": ("S", None), "Si": ("Si", None),
    "T1": ("S", (2, 1, 1, 3)), "T2": ("S", (3, 2, 1, 1)), "T3": ("S", (1, 3, 2, 1)), "T4": ("S", (1, 1, 3, 2)),
    "T5": ("Si", (14, 9, 13, 11)), "T6": ("Si", (11, 14, 9, 13)), "T7": ("Si", (13, 11, 14, 9)), "T8": ("Si", (9, 13, 11, 14)),
    "U1": (None, (14, 9, 13, 11)), "U2": (None, (11, 14, 9, 13)), "U3": (None, (13, 11, 14, 9)), "U4": (None, (9, 13, 11, 14)),
}


def gmul(a: int, b: int) -> int:
    r = 0
    while b:
        if b & 1:
            r ^= a
        a <<= 1
        if a & 0x100:
            a ^= 0x11B
        b >>= 1
    return r


def sbox_tables():
    """S and Si from the definition: multiplicative inverse in GF(2^8) followed by the affine map"""
    inv = [0] * 256
    for x in range(1, 256):
        for y in range(1, 256):
            if gmul(x, y) == 1:
                inv[x] = y
                break
    S = [0] * 256
    for x in range(256):
        b = inv[x]
        r = 0
        for i in range(8):
            bit = ((b >> i) ^ (b >> ((i + 4) % 8)) ^ (b >> ((i + 5) % 8)) ^ (b >> ((i + 6) % 8)) ^ (b >> ((i + 7) % 8)) ^ (0x63 >> i)) & 1
            r |= bit << i
        S[x] = r
    Si = [0] * 256
    for x in range(256):
        Si[S[x]] = x
    return S, Si


_S, _Si = None, None


def tables():
    global _S, _Si
    if _S is None:
        _S, _Si = sbox_tables()
    return _S, _Si


def reference_table(name: str) -> List[int]:
    S, Si = tables()
    kind, co = TABLE_SPEC[name]
    if co is None:
        return list(S if kind == "S" else Si)
    out = []
    for x in range(256):
        b = S[x] if kind == "S" else (Si[x] if kind == "Si" else x)
        w = 0
        for c in co:
            w = (w << 8) | gmul(b, c)
        out.append(w)
    return out


def reference_rcon(n: int) -> List[int]:
    r, out = 1, []
    for _ in range(n):
        out.append(r)
        r = gmul(r, 2)
    return out


class Bytes:
    """interning of byte normal forms: value = (const, frozenset{(coef, base)})"""

    def __init__(self):
        self.ids: Dict[Tuple, int] = {}
        self.vals: List[Tuple[int, frozenset]] = []

    def intern(self, const: int, terms: frozenset) -> int:
        k = (const, terms)
        i = self.ids.get(k)
        if i is None:
            i = len(self.vals)
            self.ids[k] = i
            self.vals.append(k)
        return i

    def const(self, c: int) -> int:
        return self.intern(c & 0xFF, frozenset())

    def inp(self, name) -> int:
        return self.intern(0, frozenset([(1, ("in", name))]))

    def xor(self, a: int, b: int) -> int:
        ca, ta = self.vals[a]
        cb, tb = self.vals[b]
        # combine coefficients of equal bases
        d: Dict[Tuple, int] = {}
        for co, base in ta:
            d[base] = d.get(base, 0) ^ co
        for co, base in tb:
            d[base] = d.get(base, 0) ^ co
        return self.intern(ca ^ cb, frozenset((co, base) for base, co in d.items() if co))

    def mul(self, c: int, a: int) -> int:
        if c == 1:
            return a
        ca, ta = self.vals[a]
        d: Dict[Tuple, int] = {}
        for co, base in ta:
            d[base] = d.get(base, 0) ^ gmul(co, c)
        return self.intern(gmul(ca, c), frozenset((co, base) for base, co in d.items() if co))

    def sbox(self, kind: str, a: int) -> int:
        ca, ta = self.vals[a]
        if not ta:
            S, Si = tables()
            return self.const((S if kind == "S" else Si)[ca])
        # S(Si(x)) = x
        if ca == 0 and len(ta) == 1:
            (co, base), = ta
            if co == 1 and base[0] in ("S", "Si") and base[0] != kind:
                return base[1]
        return self.intern(0, frozenset([(1, (kind, a))]))

    def show(self, a: int, depth=3) -> str:
        c, ts = self.vals[a]
        parts = ["%02x" % c] if c or not ts else []
        for co, base in sorted(ts, key=str):
            b = "%s%s" % (base[0], base[1]) if base[0] == "in" else ("%s(%s)" % (base[0], self.show(base[1], depth - 1) if depth > 0 else "…"))
            parts.append(b if co == 1 else "%d*%s" % (co, b))
        return "^".join(parts)


class Word:
    __slots__ = ("lanes", "hi")

    def __init__(self, lanes, hi=False):
        self.lanes = tuple(lanes)  # ids, lane0 = LSB
        self.hi = hi


class Lanes:
    def __init__(self):
        self.B = Bytes()
        self.zero = self.B.const(0)

    # ---- constructors
    def byte(self, b: int) -> Word:
        return Word((b, self.zero, self.zero, self.zero))

    def const(self, v: int) -> Word:
        if v < 0:
            v &= 0xFFFFFFFF
            return Word(tuple(self.B.const((v >> (8 * i)) & 0xFF) for i in range(4)), True)
        if v >> 32:
            raise Unsupported("constant wider than 32 bits in lane domain")
        return Word(tuple(self.B.const((v >> (8 * i)) & 0xFF) for i in range(4)))

    def from_bytes_be(self, bs: List[int], signed=False) -> Word:
        return Word((bs[3], bs[2], bs[1], bs[0]), signed)

    # ---- operators
    def xor(self, a: Word, b: Word) -> Word:
        return Word(tuple(self.B.xor(x, y) for x, y in zip(a.lanes, b.lanes)), a.hi or b.hi)

    def or_(self, a: Word, b: Word) -> Word:
        out = []
        for x, y in zip(a.lanes, b.lanes):
            if x == self.zero:
                out.append(y)
            elif y == self.zero:
                out.append(x)
            else:
                raise Unsupported("| of overlapping byte lanes")
        return Word(out, a.hi or b.hi)

    def shr(self, a: Word, k: int) -> Word:
        if k % 8:
            raise Unsupported("shift by %d is not a whole number of byte lanes" % k)
        n = k // 8
        lanes = list(a.lanes[n:]) + [self.zero] * min(n, 4)
        lanes = (lanes + [self.zero] * 4)[:4]
        if a.hi and n:
            # sign/garbage bits shift into the upper lanes: mark lanes above the data as unknown by keeping hi
            w = Word(lanes, True)
            w_unknown = 4 - n
            # lanes >= w_unknown are garbage; represent by a poison marker
            lanes = lanes[:w_unknown] + [-1] * (4 - w_unknown)
            return Word(lanes, True)
        return Word(lanes, a.hi)

    def shl(self, a: Word, k: int) -> Word:
        if k % 8:
            raise Unsupported("shift by %d is not a whole number of byte lanes" % k)
        n = k // 8
        dropped = a.lanes[4 - n:] if n else ()
        hi = a.hi or any(x != self.zero for x in dropped)
        lanes = [self.zero] * n + list(a.lanes[: 4 - n])
        return Word(lanes[:4], hi)

    def and_const(self, a: Word, c: int) -> Word:
        lanes = []
        for i in range(4):
            m = (c >> (8 * i)) & 0xFF
            if m == 0xFF:
                if a.lanes[i] == -1:
                    raise Unsupported("masking keeps sign-extension garbage")
                lanes.append(a.lanes[i])
            elif m == 0:
                lanes.append(self.zero)
            else:
                raise Unsupported("mask 0x%x is not lane aligned" % c)
        return Word(lanes, a.hi and (c >> 32) != 0)

    def xor_poison_ok(self, a: Word, b: Word) -> Word:
        out = []
        for x, y in zip(a.lanes, b.lanes):
            if x == -1 or y == -1:
                out.append(-1)
            else:
                out.append(self.B.xor(x, y))
        return Word(out, a.hi or b.hi)

    def lookup(self, table: str, idx: Word) -> Word:
        if idx.hi or any(l != self.zero for l in idx.lanes[1:]) or idx.lanes[0] == -1:
            raise Unsupported("table index is not a single byte")
        kind, co = TABLE_SPEC[table]
        b = idx.lanes[0]
        sb = self.B.sbox(kind, b) if kind else b
        if co is None:
            return self.byte(sb)
        lanes_msb_first = [self.B.mul(c, sb) for c in co]
        return Word(tuple(reversed(lanes_msb_first)))

    def as_byte(self, w: Word) -> int:
        if w.hi or any(l != self.zero for l in w.lanes[1:]) or w.lanes[0] == -1:
            raise Unsupported("value is not a clean byte")
        return w.lanes[0]


# ================================================================================================= term evaluation
class LaneEval:
    """evaluates symexec terms in the lane domain; `leaf(term)` supplies Words for symbolic inputs"""

    def __init__(self, ex, dom: Lanes, leaf):
        self.ex = ex
        self.d = dom
        self.leaf = leaf
        self.memo: Dict[int, Word] = {}

    def ev(self, t: Term) -> Word:
        w = self.memo.get(t.uid)
        if w is None:
            w = self._ev(t)
            self.memo[t.uid] = w
        return w

    def _ev(self, t: Term) -> Word:
        d = self.d
        lf = self.leaf(t)
        if lf is not None:
            return lf
        if t.op == "snap":
            return self.ev(t.args[0])
        if is_const(t):
            v = cval(t)
            if isinstance(v, bool) or not isinstance(v, int):
                raise Unsupported("non-integer constant in lane domain: %r" % (v,))
            return d.const(v)
        if t.op == "bin":
            op, l, r = t.args
            if op == "BitXor":
                return d.xor_poison_ok(self.ev(l), self.ev(r))
            if op == "BitOr":
                return d.or_(self.ev(l), self.ev(r))
            if op in ("LShift", "RShift"):
                if not is_const(r):
                    raise Unsupported("shift by non-constant")
                return d.shl(self.ev(l), cval(r)) if op == "LShift" else d.shr(self.ev(l), cval(r))
            if op == "BitAnd":
                if is_const(r):
                    return d.and_const(self.ev(l), cval(r))
                if is_const(l):
                    return d.and_const(self.ev(r), cval(l))
                raise Unsupported("& of two symbolic words")
            raise Unsupported("operator %s in lane domain" % op)
        if t.op == "sub":
            base, idx = t.args[0], t.args[1]
            if base.op == "snap":
                base = base.args[0]
            if base.op == "static":
                name = base.args[0].rsplit(".", 1)[-1]
                if name in TABLE_SPEC:
                    return d.lookup(name, self.ev(idx))
            raise Unsupported("subscript of %s in lane domain" % base.op)
        if t.op == "word":
            fmt, items = t.args
            return d.from_bytes_be([d.as_byte(self.ev(x)) for x in items], signed=(fmt == ">i"))
        raise Unsupported("term %s in lane domain" % t.op)


# ================================================================================================= FIPS-197 reference in the same domain
def ref_key_expansion(d: Lanes, key_bytes: List[int]) -> List[List[int]]:
    """FIPS-197 5.2 on byte ids: returns round keys as 4*(Nr+1) words, each a list of 4 byte ids (MSB first)"""
    B = d.B
    nk = len(key_bytes) // 4
    nr = {4: 10, 6: 12, 8: 14}[nk]
    w = [key_bytes[4 * i:4 * i + 4] for i in range(nk)]
    rcon = reference_rcon(14)
    for i in range(nk, 4 * (nr + 1)):
        temp = list(w[i - 1])
        if i % nk == 0:
            temp = temp[1:] + temp[:1]  # RotWord
            temp = [B.sbox("S", x) for x in temp]  # SubWord
            temp[0] = B.xor(temp[0], B.const(rcon[i // nk - 1]))
        elif nk > 6 and i % nk == 4:
            temp = [B.sbox("S", x) for x in temp]
        w.append([B.xor(a, b) for a, b in zip(w[i - nk], temp)])
    return w


def ref_inv_mix_word(d: Lanes, word: List[int]) -> List[int]:
    B = d.B
    co = [(14, 11, 13, 9), (9, 14, 11, 13), (13, 9, 14, 11), (11, 13, 9, 14)]
    out = []
    for row in co:
        acc = B.const(0)
        for c, x in zip(row, word):
            acc = B.xor(acc, B.mul(c, x))
        out.append(acc)
    return out


def ref_encrypt(d: Lanes, state_in: List[int], rk: List[List[int]], nr: int) -> List[int]:
    """FIPS-197 cipher on 16 byte ids; rk[r*4 + c] = column c of round key r (4 byte ids, MSB first).  Column-major state."""
    B = d.B
    st = [[state_in[4 * c + r] for c in range(4)] for r in range(4)]  # st[row][col]

    def add_rk(r):
        for c in range(4):
            for row in range(4):
                st[row][c] = B.xor(st[row][c], rk[4 * r + c][row])

    add_rk(0)
    for rnd in range(1, nr + 1):
        for row in range(4):
            for c in range(4):
                st[row][c] = B.sbox("S", st[row][c])
        for row in range(4):
            st[row] = st[row][row:] + st[row][:row]
        if rnd != nr:
            for c in range(4):
                col = [st[row][c] for row in range(4)]
                m = [(2, 3, 1, 1), (1, 2, 3, 1), (1, 1, 2, 3), (3, 1, 1, 2)]
                for row in range(4):
                    acc = B.const(0)
                    for co, x in zip(m[row], col):
                        acc = B.xor(acc, B.mul(co, x))
                    st[row][c] = acc
        add_rk(rnd)
    return [st[r][c] for c in range(4) for r in range(4)]


def ref_decrypt_equiv(d: Lanes, state_in: List[int], dk: List[List[int]], nr: int) -> List[int]:
    """FIPS-197 5.3.5 equivalent inverse cipher with decryption round keys dk (already InvMixColumn'ed for 1..nr-1)"""
    B = d.B
    st = [[state_in[4 * c + r] for c in range(4)] for r in range(4)]

    def add_rk(r):
        for c in range(4):
            for row in range(4):
                st[row][c] = B.xor(st[row][c], dk[4 * r + c][row])

    add_rk(0)
    for rnd in range(1, nr + 1):
        for row in range(4):
            for c in range(4):
                st[row][c] = B.sbox("Si", st[row][c])
        for row in range(4):
            st[row] = st[row][-row:] + st[row][:-row] if row else st[row]
        if rnd != nr:
            for c in range(4):
                col = ref_inv_mix_word(d, [st[row][c] for row in range(4)])
                for row in range(4):
                    st[row][c] = col[row]
        add_rk(rnd)
    return [st[r][c] for c in range(4) for r in range(4)]
