"""Expression evaluation of the structural abstract interpreter (methods of symexec.Exec)."""
from __future__ import annotations

import ast
from typing import Any, Dict, List, Optional, Tuple

from .heap import BUILTIN_EXC, HObj, LoopRec, PathDead, State, TK, Unsupported
from .load import ClassInfo, FuncInfo, ModuleInfo, NotConst, _binop, _cmpop, _dotted
from .terms import C, FALSE, NONE, TRUE, Term, cval, fresh_uid, is_const, mk, show, sym

PY_BUILTINS = {
    "len", "int", "bytes", "bytearray", "list", "tuple", "dict", "set", "frozenset", "range", "xrange", "enumerate", "zip", "isinstance",
    "issubclass", "sorted", "map", "filter", "any", "all", "str", "min", "max", "abs", "print", "open", "iter", "next", "hasattr", "getattr",
    "setattr", "type", "super", "repr", "ord", "chr", "hex", "bin", "oct", "divmod", "pow", "sum", "reversed", "bool", "id", "object", "float",
    "callable", "memoryview", "round", "hash", "format", "vars", "dir", "globals", "locals", "property", "staticmethod", "classmethod", "slice",
    "NotImplemented", "Ellipsis", "__name__", "__file__", "bytes_to_int",
}


def ev(self, e: ast.AST, st: State) -> Term:
    m = getattr(self, "_ev_" + type(e).__name__, None)
    if m is not None:
        return m(e, st)
    t = type(e)
    if t is ast.Constant:
        return C(e.value)
    if t is ast.Name:
        return self.ev_name(e, st)
    if t is ast.Attribute:
        return self.ev_attr(e, st)
    if t is ast.Subscript:
        return self.ev_subscript(e, st)
    if t is ast.Call:
        return self.ev_call(e, st)
    if t is ast.BinOp:
        return self.ev_binop(e, st)
    if t is ast.UnaryOp:
        v = self.ev(e.operand, st)
        if isinstance(e.op, ast.Not):
            return neg(self.truth(v, st))
        if is_const(v):
            try:
                x = cval(v)
                return C(-x if isinstance(e.op, ast.USub) else (~x if isinstance(e.op, ast.Invert) else +x))
            except TypeError:
                pass
        self.emit("op", e, st, op=type(e.op).__name__, args=(v,), result=None)
        return mk("un", type(e.op).__name__, v)
    if t is ast.BoolOp:
        is_and = isinstance(e.op, ast.And)
        vals = []
        saved_ctx, saved_facts = st.ctx, st.facts
        try:
            for i, sub in enumerate(e.values):
                v = self.ev(sub, st)
                tv = self.truth(v, st)
                if is_const(tv):
                    b = cval(tv)
                    if (is_and and not b) or (not is_and and b):
                        vals.append(v)
                        break  # short circuit decided
                    if i < len(e.values) - 1:
                        continue  # neutral element
                vals.append(v)
                if i < len(e.values) - 1:
                    st.ctx = st.ctx + (("if", tv, is_and, fresh_uid()),)
                    st.facts = st.facts + ((tv, is_and),)
        finally:
            st.ctx, st.facts = saved_ctx, saved_facts
        if len(vals) == 1:
            return vals[0]
        return mk("and" if is_and else "or", tuple(vals))
    if t is ast.Compare:
        left = self.ev(e.left, st)
        parts = []
        saved_ctx, saved_facts = st.ctx, st.facts
        try:
            for op, rexpr in zip(e.ops, e.comparators):
                right = self.ev(rexpr, st)
                r = self.compare(type(op).__name__, left, right, st, e)
                parts.append(r)
                left = right
                if len(e.ops) > 1:
                    st.ctx = st.ctx + (("if", r, True, fresh_uid()),)
        finally:
            st.ctx, st.facts = saved_ctx, saved_facts
        if len(parts) == 1:
            return parts[0]
        if all(is_const(p) for p in parts):
            return C(all(cval(p) for p in parts))
        return mk("and", tuple(parts))
    if t is ast.IfExp:
        c = self.truth(self.ev(e.test, st), st)
        if is_const(c):
            return self.ev(e.body if cval(c) else e.orelse, st)
        saved_ctx, saved_facts = st.ctx, st.facts
        try:
            st.ctx = saved_ctx + (("if", c, True, fresh_uid()),)
            st.facts = saved_facts + ((c, True),)
            a = self.ev(e.body, st)
            st.ctx = saved_ctx + (("if", c, False, fresh_uid()),)
            st.facts = saved_facts + ((c, False),)
            b = self.ev(e.orelse, st)
        finally:
            st.ctx, st.facts = saved_ctx, saved_facts
        return a if a is b else mk("phi", c, a, b)
    if t is ast.Tuple:
        elts = []
        parts = []
        unknown = False
        for x in e.elts:
            if isinstance(x, ast.Starred):
                v = self.ev(x.value, st)
                items = self.iter_items(v, st)
                if items is None:
                    unknown = True
                    parts.append(("extend", v))
                else:
                    elts.extend(items)
                    parts += [("append", i_) for i_ in items]
            else:
                v = self.ev(x, st)
                elts.append(v)
                parts.append(("append", v))
        if unknown:
            # (a, *xs) with items of xs not known one by one: a sequence built from a followed by the items of xs (kept as a list object)
            r = self.new_obj(st, "list")
            o = self.obj(st, r)
            o.exact = False
            o.items = [(v_, st.ctx, how_) for how_, v_ in parts]
            return r
        if all(is_const(x) for x in elts):
            return C(tuple(cval(x) for x in elts))
        return mk("tuple", tuple(elts))
    if t is ast.List and any(isinstance(x, ast.Starred) for x in e.elts):
        # [a, *xs, b] with an iterable whose items are not known one by one: a list built by appending a, extending by xs, appending b
        parts = [(x, self.ev(x.value if isinstance(x, ast.Starred) else x, st)) for x in e.elts]
        if any(isinstance(x, ast.Starred) and self.iter_items(v, st) is None for x, v in parts):
            r = self.new_obj(st, "list")
            o = self.obj(st, r)
            o.exact = False
            o.items = []
            for x, v in parts:
                if isinstance(x, ast.Starred):
                    its = self.iter_items(v, st)
                    if its is not None:
                        o.items += [(i_, st.ctx, "append") for i_ in its]
                    else:
                        o.items.append((v, st.ctx, "extend"))
                else:
                    o.items.append((v, st.ctx, "append"))
            return r
        elts = []
        for x, v in parts:
            if isinstance(x, ast.Starred):
                elts.extend(self.iter_items(v, st))
            else:
                elts.append(v)
        return self.new_list(st, elts)
    if t is ast.List:
        elts = []
        for x in e.elts:
            if isinstance(x, ast.Starred):
                items = self.iter_items(self.ev(x.value, st), st)
                if items is None:
                    raise Unsupported("starred symbolic iterable at %d" % e.lineno)
                elts.extend(items)
            else:
                elts.append(self.ev(x, st))
        return self.new_list(st, elts)
    if t is ast.Set:
        elts = [self.ev(x, st) for x in e.elts]
        if all(is_const(x) for x in elts):
            return C(frozenset(cval(x) for x in elts))
        r = self.new_obj(st, "set")
        self.obj(st, r).items = elts
        return r
    if t is ast.Dict:
        r = self.new_obj(st, "dict")
        o = self.obj(st, r)
        for k, v in zip(e.keys, e.values):
            vv = self.ev(v, st)
            if k is None:
                src = self.obj(st, vv)
                if src is not None and src.kind == "dict" and src.exact:
                    o.kv.update(src.kv)
                else:
                    o.exact = False
                    o.writes.append((mk("splat"), vv, st.ctx))
                continue
            kk = self.ev(k, st)
            if is_const(kk) and o.exact:
                o.kv[_ck(cval(kk))] = vv
            else:
                if o.exact:
                    o.writes = [(k0.term if hasattr(k0, 'term') else C(k0), v0, st.ctx) for k0, v0 in o.kv.items()]
                    o.kv = {}
                    o.exact = False
                o.writes.append((kk, vv, st.ctx))
        return r
    if t in (ast.ListComp, ast.GeneratorExp, ast.SetComp, ast.DictComp):
        return self.ev_comp(e, st)
    if t is ast.Lambda:
        fi = self.prog.func_by_node.get(id(e))
        if fi is None:
            raise Unsupported("lambda not indexed")
        self.fis[id(fi.node)] = fi
        self.frames[-1].made_closure = True
        return mk("closure", fi.qualname, id(fi.node), len(self.frames) - 1, self.frames[-1].uid)
    if t is ast.JoinedStr:
        parts = []
        for v in e.values:
            if isinstance(v, ast.Constant):
                parts.append(C(v.value))
            else:
                val_ = self.ev(v.value, st)
                spec_ = _spec(v)
                if is_const(val_) and spec_ != "?" and v.conversion in (-1, 115, 114) and not isinstance(cval(val_), Term):
                    # a constant value formats to a constant piece of text
                    try:
                        x_ = cval(val_)
                        x_ = str(x_) if v.conversion == 115 else repr(x_) if v.conversion == 114 else x_
                        parts.append(C(format(x_, spec_)))
                        continue
                    except (ValueError, TypeError):
                        pass
                parts.append(mk("fmtval", val_, C(spec_)))
        if all(is_const(p_) for p_ in parts):
            return C("".join(str(cval(p_)) for p_ in parts))
        return mk("fstr", tuple(parts))
    if t is ast.Starred:
        return self.ev(e.value, st)
    if t is ast.Yield:
        v = self.ev(e.value, st) if e.value is not None else NONE
        fr = self.frame
        self.emit("yield", e, st, value=v)
        if fr.yields is not None:
            o = st.heap[fr.yields]
            if o.exact and not any(f[0] == "loop" for f in st.ctx[len(o.created_ctx):]):
                o.items.append(v)
            else:
                if o.exact:
                    o.items = [(x, o.created_ctx, "yield") for x in o.items]
                    o.exact = False
                o.items.append((v, st.ctx, "yield"))
            o.version += 1
        return NONE
    if t is ast.NamedExpr:
        v = self.ev(e.value, st)
        st.envs[-1][e.target.id] = v
        return v
    if t is ast.Slice:
        return mk("sliceobj", self.ev(e.lower, st) if e.lower else NONE, self.ev(e.upper, st) if e.upper else NONE, self.ev(e.step, st) if e.step else NONE)
    raise Unsupported("expression %s at line %d" % (t.__name__, getattr(e, "lineno", 0)))


def _spec(v: ast.FormattedValue) -> str:
    if v.format_spec is None:
        return ""
    try:
        return "".join(x.value for x in v.format_spec.values if isinstance(x, ast.Constant))
    except Exception:
        return "?"


def _ck(k):
    return k


def neg(t: Term) -> Term:
    if is_const(t):
        return C(not cval(t))
    if t.op == "un" and t.args[0] == "Not":
        return t.args[1]
    return mk("un", "Not", t)


def truth(self, v: Term, st: State) -> Term:
    """boolean view of a value (constant when decidable)"""
    if is_const(v):
        return C(bool(cval(v)))
    if v.op == "static":
        return C(bool(self.statics[v.args[0]]))
    if v.op in ("cmp", "and", "or", "isinst") or (v.op == "un" and v.args[0] == "Not"):
        return v
    if v.op in ("func", "class", "bound", "closure", "partial", "module", "builtin", "ext"):
        return TRUE
    if v.op == "phi" and v.args[0].op not in ("sym",):
        # the truth of a conditional value with a constant arm is a conjunction / disjunction: (False if c else x) is (not c and x), (True if c else x) is (c or x), ...
        # (what `if not test: return False; return other_test` in a predicate helper merges to)
        c_, a_, b_ = v.args
        for arm, other, pol in ((a_, b_, True), (b_, a_, False)):
            if is_const(arm) and isinstance(cval(arm), bool):
                cc = c_ if pol else neg(c_)
                ot = truth(self, other, st)
                if cval(arm) is False:
                    # arm taken when cc holds gives False: value is true iff (not cc) and other
                    return mk("and", (neg(cc), ot))
                return mk("or", (cc, ot))
    if v.op in ("tuple", "sbytes"):
        return C(len(v.args[0]) > 0)
    if v.op == "ref":
        o = self.obj(st, v)
        if o is not None:
            if o.kind == "obj":
                if o.cls is not None and (o.cls.lookup("__bool__") or o.cls.lookup("__len__")):
                    return mk("truthy", v, o.version)
                if o.origin is None:
                    return TRUE
                return mk("truthy", v, o.version)
            if o.kind in ("list", "set", "bytearray") and o.exact:
                return C(len(o.items) > 0)
            if o.kind == "dict" and o.exact:
                return C(len(o.kv) > 0)
            return mk("truthy", v, o.version)
    for (f, pol) in st.facts:
        if f is v or (f.op == "truthy" and f.args[0] is v):
            return C(pol)
    return mk("truthy", v)


def ev_name(self, e: ast.Name, st: State) -> Term:
    name = e.id
    fr = self.frame
    if name not in fr.globals_decl:
        if name in st.envs[-1]:
            return st.envs[-1][name]
        # enclosing function scopes (closures)
        cf = fr.closure_frame
        while cf is not None and cf < len(st.envs):
            if name in st.envs[cf]:
                return st.envs[cf][name]
            cf = self.frames[cf].closure_frame if cf < len(self.frames) else None
        # nested function called after its defining activation returned
        if fr.captured is not None and name in fr.captured:
            return fr.captured[name]
    return self.lookup_global(fr.fi.module, name, st, e)


def lookup_global(self, m: ModuleInfo, name: str, st: State, node=None) -> Term:
    key = (m.name, name)
    if key in self.global_overrides:
        return self.global_overrides[key]
    if key in self.global_store:
        return self.global_store[key]
    r = self.prog.resolve_symbol(m, name)
    if isinstance(r, FuncInfo):
        return self.fterm(r)
    if isinstance(r, ClassInfo):
        return mk("class", r.qualname)
    if isinstance(r, ModuleInfo):
        return mk("module", r.name)
    if isinstance(r, tuple) and r[0] == "external":
        return mk("ext", r[1])
    if isinstance(r, tuple) and r[0] == "expr":
        rm, expr = r[1], r[2]
        if (rm.name, name) in self.global_overrides:
            return self.global_overrides[(rm.name, name)]
        if isinstance(expr, ast.Call) and len(expr.args) == 1 and not expr.keywords and isinstance(expr.args[0], ast.Constant) and isinstance(expr.func, (ast.Name, ast.Attribute)):
            # NAME = struct.Struct("<constant format>") at module level
            fd = _dotted(expr.func)
            rb_ = self.prog.resolve_symbol(rm, fd.split(".")[0]) if fd else None
            full = (rb_[1] + fd[len(fd.split(".")[0]):]) if isinstance(rb_, tuple) and rb_[0] == "external" else None
            if full == "struct.Struct":
                from .models import struct_layout

                if struct_layout(expr.args[0].value) is not None:
                    return mk("structobj", expr.args[0].value)
        if isinstance(expr, ast.Call) and len(expr.args) == 2 and not expr.keywords and isinstance(expr.args[0], ast.Constant) and isinstance(expr.func, (ast.Name, ast.Attribute)):
            # NAME = namedtuple("NAME", <constant field names>) at module level: the record class
            fd = _dotted(expr.func)
            rb_ = self.prog.resolve_symbol(rm, fd.split(".")[0]) if fd else None
            full = (rb_[1] + fd[len(fd.split(".")[0]):]) if isinstance(rb_, tuple) and rb_[0] == "external" else None
            if full == "collections.namedtuple":
                try:
                    fields_ = self.prog.fold(rm, expr.args[1])
                    cls_t = mk("call", mk("ext", "collections.namedtuple"), (C(expr.args[0].value), self.lift(fields_ if isinstance(fields_, str) else tuple(fields_))), (), 0)
                    from .models import namedtuple_fields

                    if namedtuple_fields(cls_t) is not None:
                        return cls_t
                except (NotConst, RecursionError, TypeError):
                    pass
        if isinstance(expr, ast.Call) and isinstance(expr.func, (ast.Name, ast.Attribute)):
            # NAME = SomeDataclass(<constants / class names>) at module level: an immutable record of its fields
            tgt_c = self.prog.resolve_expr_static(rm, expr.func)
            if isinstance(tgt_c, ClassInfo):
                from .models import bind_dataclass, dataclass_fields

                dcf = dataclass_fields(tgt_c)
                if dcf is not None and tgt_c.lookup("__post_init__") is None:
                    def const_arg(x_):
                        t_ = self.prog.resolve_expr_static(rm, x_) if isinstance(x_, (ast.Name, ast.Attribute)) else None
                        if isinstance(t_, ClassInfo):
                            return mk("class", t_.qualname)
                        if isinstance(t_, FuncInfo):
                            return self.fterm(t_)
                        return self.lift(self.prog.fold(rm, x_))

                    try:
                        a_ = [const_arg(x_) for x_ in expr.args]
                        k_ = {kw.arg: const_arg(kw.value) for kw in expr.keywords if kw.arg is not None}
                        vals = bind_dataclass(self, tgt_c, dcf, a_, k_, st, node) if len(k_) == len(expr.keywords) and not any(isinstance(x_, ast.Starred) for x_ in expr.args) else None
                    except (NotConst, RecursionError, TypeError):
                        vals = None
                    if vals is not None:
                        return mk("record", tgt_c.qualname, tuple((n_, vals[n_]) for n_, _ in dcf))
        if isinstance(expr, ast.Tuple) and expr.elts:
            # NAME = ((lshift, 8), (rshift, 4)): a constant tuple of constants, library functions and such tuples
            def static_item(x_):
                if isinstance(x_, ast.Tuple):
                    its_ = [static_item(y_) for y_ in x_.elts]
                    return None if any(i_ is None for i_ in its_) else mk("tuple", tuple(its_))
                if isinstance(x_, ast.Constant):
                    return C(x_.value)
                if isinstance(x_, ast.Lambda):
                    # a lambda in a module-level table: a function of the module (its free names are module globals)
                    lf_ = self._prop_getters.get(id(x_))
                    if lf_ is None:
                        lf_ = FuncInfo(rm, x_, "%s.<lambda@%d:%d>" % (rm.name, x_.lineno, x_.col_offset), None)
                        self._prop_getters[id(x_)] = lf_
                    return self.fterm(lf_)
                if isinstance(x_, (ast.Name, ast.Attribute)):
                    fd_ = _dotted(x_)
                    if not fd_:
                        return None
                    rb_ = self.prog.resolve_symbol(rm, fd_.split(".")[0])
                    if isinstance(rb_, tuple) and rb_[0] == "external":
                        return mk("ext", rb_[1] + fd_[len(fd_.split(".")[0]):])
                    t_ = self.prog.resolve_expr_static(rm, x_)
                    if isinstance(t_, FuncInfo):
                        return self.fterm(t_)
                    if isinstance(t_, ClassInfo):
                        return mk("class", t_.qualname)
                    try:
                        return self.lift(self.prog.fold(rm, x_))
                    except (NotConst, RecursionError):
                        return None
                return None

            if any(isinstance(x_, (ast.Tuple, ast.Name, ast.Attribute)) for x_ in expr.elts):
                try:
                    self.prog.fold(rm, expr)
                    foldable = True
                except (NotConst, RecursionError):
                    foldable = False
                if not foldable:
                    si_ = static_item(expr)
                    if si_ is not None:
                        return si_
        if isinstance(expr, (ast.Tuple, ast.List)) and expr.elts and all(isinstance(x_, ast.Call) and not x_.keywords and x_.args and all(isinstance(a_, ast.Constant) for a_ in x_.args) for x_ in expr.elts):
            # NAME = (methodcaller("x"), methodcaller("y")): a constant tuple of operator-module accessors
            outs = []
            for x_ in expr.elts:
                fd = _dotted(x_.func)
                rb_ = self.prog.resolve_symbol(rm, fd.split(".")[0]) if fd else None
                full = (rb_[1] + fd[len(fd.split(".")[0]):]) if isinstance(rb_, tuple) and rb_[0] == "external" else None
                if full in ("operator.methodcaller", "operator.attrgetter", "operator.itemgetter"):
                    outs.append(mk("opcaller", full.split(".")[1], tuple(C(a_.value) for a_ in x_.args)))
            if len(outs) == len(expr.elts):
                return mk("tuple", tuple(outs))
        if isinstance(expr, ast.Call) and not expr.keywords and expr.args and all(isinstance(a_, ast.Constant) for a_ in expr.args):
            # NAME = methodcaller("acquire"): one operator-module accessor
            fd = _dotted(expr.func)
            rb_ = self.prog.resolve_symbol(rm, fd.split(".")[0]) if fd else None
            full = (rb_[1] + fd[len(fd.split(".")[0]):]) if isinstance(rb_, tuple) and rb_[0] == "external" else None
            if full in ("operator.methodcaller", "operator.attrgetter", "operator.itemgetter"):
                return mk("opcaller", full.split(".")[1], tuple(C(a_.value) for a_ in expr.args))
        tgt = self.prog.resolve_expr_static(rm, expr) if isinstance(expr, (ast.Name, ast.Attribute)) else None
        if isinstance(tgt, FuncInfo):
            return self.fterm(tgt)
        if isinstance(tgt, ClassInfo):
            return mk("class", tgt.qualname)
        try:
            v = self.prog.fold(rm, expr)
            return self.lift(v, rm.name + "." + name)
        except (NotConst, RecursionError):
            pass
        if isinstance(expr, (ast.Name, ast.Attribute)):
            d = _dotted(expr)
            if d:
                base = d.split(".")[0]
                rb = self.prog.resolve_symbol(rm, base)
                if isinstance(rb, tuple) and rb[0] == "external":
                    return mk("ext", rb[1] + d[len(base):])
                if rb is None and base in PY_BUILTINS | BUILTIN_EXC:
                    return mk("builtin", d)
        if self.sym_bytes and isinstance(expr, (ast.Call, ast.BinOp, ast.Subscript)) and (rm.name, name) not in self._global_eval_busy:
            # concrete-control scenarios: a module-level value defined by an expression over constants (e.g. a DER-encoded OID)
            # is obtained by interpreting that expression in its module; cached; opaque when it does not come out constant
            self._global_eval_busy.add((rm.name, name))
            try:
                sub = type(self)(self.prog, policy=self.policy)
                sub.sym_bytes = True
                sub.summaries = self.summaries
                r2 = sub.run_driver(rm, "def drv():\n    return %s\n" % ast.unparse(expr))
                if not r2.dead and r2.ret is not None and (is_const(r2.ret) or r2.ret.op == "sbytes"):
                    self.global_store[(rm.name, name)] = r2.ret
                    return r2.ret
            except (Unsupported, PathDead, RecursionError):
                pass
            finally:
                self._global_eval_busy.discard((rm.name, name))
        return mk("global", rm.name, name)
    if name in ("True", "False", "None"):
        return C({"True": True, "False": False, "None": None}[name])
    if name in BUILTIN_EXC:
        return mk("builtin", name)
    if name in PY_BUILTINS:
        return mk("builtin", name)
    if name == "__class__" and self.frame.fi.cls is not None:
        return mk("class", self.frame.fi.cls.qualname)
    return mk("global", m.name, name)


def ev_attr(self, e: ast.Attribute, st: State) -> Term:
    base = self.ev(e.value, st)
    return self.get_attr(base, self.mangle(e.attr), st, e)


def _class_of(self, qual) -> Optional[ClassInfo]:
    return self.prog.classes.get(qual)


def _record_class_of(self, t: Term):
    """(class qualname, field names) when t is a record of a named-tuple class of the repository: a constant folded from a call of the class, or an
    entry TABLE[k] of a module-level table all of whose values are such records of one class"""
    vals = None
    if is_const(t) and isinstance(cval(t), tuple) and type(cval(t)) is not tuple and hasattr(cval(t), "_cls_qual"):
        vals = [cval(t)]
    elif t.op == "sub" and t.args[0].op == "static":
        tbl = self.statics.get(t.args[0].args[0])
        if isinstance(tbl, dict) and tbl:
            vals = list(tbl.values())
        elif isinstance(tbl, (list, tuple)) and tbl:
            vals = list(tbl)
    if not vals or not all(isinstance(v, tuple) and type(v) is not tuple and hasattr(v, "_cls_qual") for v in vals):
        return None
    if len({v._cls_qual for v in vals}) != 1:
        return None
    return vals[0]._cls_qual, tuple(vals[0]._fields)


def get_attr(self, base: Term, name: str, st: State, node=None) -> Term:
    op = base.op
    if op == "ref":
        o_h = self.obj(st, base)
        if o_h is not None and o_h.kind == "obj" and o_h.label == "hmac" and name in ("update", "digest", "copy", "hexdigest"):
            return mk("hmacmeth", base, name)
    if op == "call" and name in ("digest_size", "block_size") and isinstance(base.args[0], Term) and base.args[0].op == "ext" and not base.args[1]:
        sizes = {"hashlib.md5": (16, 64), "hashlib.sha1": (20, 64), "hashlib.sha224": (28, 64), "hashlib.sha256": (32, 64), "hashlib.sha384": (48, 128), "hashlib.sha512": (64, 128)}
        if base.args[0].args[0] in sizes:
            return C(sizes[base.args[0].args[0]][0 if name == "digest_size" else 1])
    if op == "record":
        for n_, v_ in base.args[1]:
            if n_ == name:
                return v_
        c_ = self.prog.classes.get(base.args[0])
        r_ = c_.lookup(name) if c_ is not None else None
        if r_ is not None and isinstance(r_[1], FuncInfo):
            self.fis[id(r_[1].node)] = r_[1]
            if r_[1].kind == "property":
                return self.call_function(r_[1], [base], {}, st, node, self_term=base)
            if r_[1].kind == "staticmethod":
                return self.fterm(r_[1])
            return mk("bound", r_[1].qualname, id(r_[1].node), base if r_[1].kind != "classmethod" else mk("class", c_.qualname))
    ntc = _record_class_of(self, base)
    if ntc is not None:
        # a record of a named-tuple class kept in a module-level table: fields by position, methods of the class bound to the record
        qual_, fields_ = ntc
        if name in fields_:
            i_ = fields_.index(name)  # (reading a field cannot fail: no subscript event)
            return self.lift(cval(base)[i_]) if is_const(base) else mk("sub", base, C(i_))
        c_ = self.prog.classes.get(qual_)
        r_ = c_.lookup(name) if c_ is not None else None
        if r_ is not None and isinstance(r_[1], FuncInfo):
            self.fis[id(r_[1].node)] = r_[1]
            if r_[1].kind == "property":
                return self.call_function(r_[1], [base], {}, st, node, self_term=base)
            if r_[1].kind == "staticmethod":
                return self.fterm(r_[1])
            return mk("bound", r_[1].qualname, id(r_[1].node), base if r_[1].kind != "classmethod" else mk("class", c_.qualname))
    if op == "tuple" and base.uid in self.nt_fields:
        idx = {f.index(name) for f in self.nt_fields[base.uid] if name in f}
        if len(idx) == 1:
            return base.args[0][idx.pop()]
        if len(idx) > 1:
            raise Unsupported("attribute %s of a tuple that stands for named tuples of different classes" % name)
        ncls = getattr(self, "nt_class", {}).get(base.uid)
        if not idx and ncls and len(ncls) == 1:
            # a method / property defined by the named-tuple class of the record: bound to the record
            c_ = self.prog.classes.get(next(iter(ncls)))
            r_ = c_.lookup(name) if c_ is not None else None
            if r_ is not None and isinstance(r_[1], FuncInfo):
                self.fis[id(r_[1].node)] = r_[1]
                if r_[1].kind == "property":
                    return self.call_function(r_[1], [base], {}, st, node, self_term=base)
                if r_[1].kind == "staticmethod":
                    return self.fterm(r_[1])
                return mk("bound", r_[1].qualname, id(r_[1].node), base if r_[1].kind != "classmethod" else mk("class", c_.qualname))
            if name == "_asdict":
                return mk("bound_asdict", base)
    if op == "structobj":
        if name == "size":
            import struct as _struct

            return C(_struct.calcsize(base.args[0]))
        if name == "format":
            return C(base.args[0])
    if op == "ref":
        o = self.obj(st, base)
        if o is None:
            return mk("attr", base, name)
        if o.kind == "obj":
            if name in o.attrs:
                return o.attrs[name]
            if name == "__class__" and o.cls is not None:
                return mk("class", o.cls.qualname)
            if o.cls is not None and o.origin is not None and o.cls.qualname in self.replaced_bases and isinstance((o.cls.lookup(name) or (None, None))[1], FuncInfo):
                # symbolic object typed by an abstract registry base: dispatched dynamically to the registered class
                return mk("attr", o.origin, name)
            if o.cls is not None:
                r = o.cls.lookup(name)
                if r is not None:
                    owner, member = r
                    if isinstance(member, FuncInfo):
                        if member.kind == "property":
                            return self.call_function(member, [base], {}, st, node, self_term=base)
                        if member.kind == "staticmethod":
                            return self.fterm(member)
                        if member.kind == "classmethod":
                            self.fis[id(member.node)] = member
                            return mk("bound", member.qualname, id(member.node), mk("class", o.cls.qualname))
                        self.fis[id(member.node)] = member
                        return mk("bound", member.qualname, id(member.node), base)
                    if isinstance(member, ast.Call) and isinstance(member.func, ast.Name) and member.func.id == "property" and member.args and not member.keywords:
                        # name = property(<getter>) in the class body: reading the attribute on an instance calls the getter
                        g = member.args[0]
                        gfi = None
                        if isinstance(g, ast.Lambda):
                            gfi = self._prop_getters.get(id(g))
                            if gfi is None:
                                gfi = FuncInfo(owner.module, g, "%s.%s.<fget>" % (owner.qualname, name), owner)
                                self._prop_getters[id(g)] = gfi
                        elif isinstance(g, ast.Name) and isinstance(owner.methods.get(g.id), FuncInfo):
                            gfi = owner.methods[g.id]
                        if gfi is not None:
                            return self.call_function(gfi, [base], {}, st, node, self_term=base)
                    return self._class_attr_value(owner, name, member, st)
                ext = o.cls.external_bases()
                if o.origin is not None:
                    t = mk("attr", o.origin, name)
                    return t
                if [x for x in ext if x != "object"]:
                    return mk("extmeth", base, name, ext[0])
                if self.sym_bytes and name not in o.attrs and not name.startswith("__") and not o.cls.lookup("__getattr__"):
                    # concrete-control scenarios: an object built in the scenario, attribute neither set nor defined by its classes
                    self.emit("raise", node, st, exc="AttributeError", exc_term=mk("builtin", "AttributeError"), args=(), reraise=False, implicit=True, construct="%s.%s" % (o.cls.name, name))
                    raise PathDead()
                return mk("attr", base, name)
            if o.origin is not None:
                return mk("attr", o.origin, name)
            return mk("attr", base, name)
        return mk("bmeth", base, name)  # list/dict/bytearray method
    if op == "class":
        c = self.prog.classes.get(base.args[0])
        if c is None:
            return mk("attr", base, name)
        if name == "__name__":
            return C(c.name)
        if name == "__dict__":
            try:
                d = {}
                for k, expr in c.attrs.items():
                    d[k] = self.prog.fold(c.module, expr, cls=c)
                d["__module__"] = c.module.name
                d["__dict__"] = "<attribute>"
                d["__weakref__"] = "<attribute>"
                d["__doc__"] = None
                return self.static(c.qualname + ".__dict__", d)
            except NotConst:
                return mk("attr", base, name)
        r = c.lookup(name)
        if r is None:
            return mk("attr", base, name)
        owner, member = r
        if isinstance(member, FuncInfo):
            self.fis[id(member.node)] = member
            if member.kind == "classmethod":
                return mk("bound", member.qualname, id(member.node), base)
            return self.fterm(member)
        return self._class_attr_value(owner, name, member, st)
    if op == "module":
        m = self.prog.modules.get(base.args[0])
        if m is None:
            return mk("ext", base.args[0] + "." + name)
        sub = m.name + "." + name
        if name not in m.symbols and sub in self.prog.modules:
            return mk("module", sub)
        return self.lookup_global(m, name, st, node)
    if op == "ext":
        return mk("ext", base.args[0] + "." + name)
    if op == "builtin":
        return mk("builtin", base.args[0] + "." + name)
    if op == "super":
        lex = self.prog.classes.get(base.args[0])
        selft = base.args[1]
        so = self.obj(st, selft)
        dyn = so.cls if (so is not None and so.cls is not None) else (self.prog.classes.get(selft.args[0]) if selft.op == "class" else lex)
        mro = dyn.mro()
        idx = next((i for i, c in enumerate(mro) if c is lex), None)
        rest = mro[idx + 1:] if idx is not None else lex.mro()[1:]
        for c in rest:
            if isinstance(c, ClassInfo):
                member = c.injected.get(name) or c.methods.get(name)
                if isinstance(member, FuncInfo):
                    self.fis[id(member.node)] = member
                    if member.kind == "staticmethod":
                        return self.fterm(member)
                    if member.kind == "classmethod":
                        return mk("bound", member.qualname, id(member.node), mk("class", dyn.qualname))
                    return mk("bound", member.qualname, id(member.node), selft)
            else:
                return mk("extmeth", selft, name, c)
        return mk("extmeth", selft, name, "object")
    if op in ("const", "static"):
        if base is NONE and self.sym_bytes and not name.startswith("__"):
            # concrete-control scenarios: attribute access on None is a definite AttributeError
            self.emit("raise", node, st, exc="AttributeError", exc_term=mk("builtin", "AttributeError"), args=(), reraise=False, implicit=True, construct="None.%s" % name)
            raise PathDead()
        return mk("bmeth", base, name)
    if op == "elem":
        # element of a list whose members are known heap objects: push the attribute read through
        alts = _ref_alternatives(base.args[0])
        if alts and all(self.obj(st, a) is not None and self.obj(st, a).kind == "obj" for a in alts):
            vals = []
            for a in alts:
                vals.append(self.get_attr(a, name, st, node))
            r = vals[0]
            for v in vals[1:]:
                if v is not r:
                    r = mk("phi", mk("sym", "which", base.args[1]), r, v)
            return r if all(v.op in ("ref", "const") for v in vals) and len({v.uid for v in vals}) == 1 else mk("elem", r, base.args[1]) if r.op != "ref" else r
    if op == "bound" and name == "__name__":
        return C(base.args[0].split(".")[-1])
    return mk("attr", base, name)


def _ref_alternatives(t: Term):
    """heap references a term may denote (through phi), or None when some alternative is not a reference"""
    t = t.args[0] if t.op == "snap" else t
    if t.op == "ref":
        return [t]
    if t.op == "phi":
        a, b = _ref_alternatives(t.args[1]), _ref_alternatives(t.args[2])
        if a is None or b is None:
            return None
        out = list(a)
        for x in b:
            if not any(x is y for y in out):
                out.append(x)
        return out
    return None


def _class_attr_value(self, owner: ClassInfo, name: str, expr, st: State) -> Term:
    if isinstance(expr, FuncInfo):
        return self.fterm(expr)
    if not isinstance(expr, ast.AST):
        return mk("attr", mk("class", owner.qualname), name)
    tgt = self.prog.resolve_expr_static(owner.module, expr) if isinstance(expr, (ast.Name, ast.Attribute)) else None
    if isinstance(tgt, FuncInfo):
        return self.fterm(tgt)
    if isinstance(tgt, ClassInfo):
        return mk("class", tgt.qualname)
    try:
        v = self.prog.fold(owner.module, expr, cls=owner)
        return self.lift(v, owner.qualname + "." + name)
    except (NotConst, RecursionError):
        pass
    if isinstance(expr, ast.Call) and len(expr.args) == 1 and not expr.keywords and isinstance(expr.args[0], ast.Constant) and isinstance(expr.func, (ast.Name, ast.Attribute)):
        # NAME = struct.Struct("<constant format>") in a class body
        fd = _dotted(expr.func)
        rb_ = self.prog.resolve_symbol(owner.module, fd.split(".")[0]) if fd else None
        full = (rb_[1] + fd[len(fd.split(".")[0]):]) if isinstance(rb_, tuple) and rb_[0] == "external" else None
        if full == "struct.Struct":
            from .models import struct_layout

            if struct_layout(expr.args[0].value) is not None:
                return mk("structobj", expr.args[0].value)
    if (isinstance(expr, ast.Call) and isinstance(expr.func, ast.Name) and expr.func.id == "dict" and len(expr.args) == 1 and not expr.keywords
            and isinstance(expr.args[0], (ast.GeneratorExp, ast.ListComp)) and isinstance(expr.args[0].elt, ast.Tuple) and len(expr.args[0].elt.elts) == 2):
        # dict((c.TAG, c) for c in (A, B, C)) is the comprehension {c.TAG: c for c in (A, B, C)}
        ge_ = expr.args[0]
        expr = ast.copy_location(ast.DictComp(key=ge_.elt.elts[0], value=ge_.elt.elts[1], generators=ge_.generators), expr)
    if isinstance(expr, ast.DictComp) or isinstance(expr, ast.Dict):
        v = self._static_dispatch_table(owner, expr)
        if v is not None:
            return self.static(owner.qualname + "." + name, v)
    return mk("attr", mk("class", owner.qualname), name)


def _static_dispatch_table(self, owner: ClassInfo, expr):
    """{c.TAG: c for c in [A, B, C]} -> {tag: ('class', qualname)}"""
    if isinstance(expr, ast.DictComp) and len(expr.generators) == 1 and isinstance(expr.generators[0].iter, (ast.List, ast.Tuple)):
        g = expr.generators[0]
        out = {}
        if not isinstance(g.target, ast.Name):
            return None
        for elt in g.iter.elts:
            c = self.prog.resolve_expr_static(owner.module, elt)
            if not isinstance(c, ClassInfo):
                return None
            k, v = expr.key, expr.value
            if isinstance(k, ast.Attribute) and isinstance(k.value, ast.Name) and k.value.id == g.target.id and isinstance(v, ast.Name) and v.id == g.target.id:
                try:
                    out[self.prog.fold_class_attr(c, k.attr)] = mk("class", c.qualname)
                except NotConst:
                    return None
            else:
                return None
        return out
    return None


# ---------------------------------------------------------------------- subscripts
def sbytes(items) -> Term:
    """immutable bytes value with symbolic byte terms (constant bytes when every byte is constant)"""
    items = tuple(items)
    if all(is_const(x) and isinstance(cval(x), int) and 0 <= cval(x) < 256 for x in items):
        return C(bytes(cval(x) for x in items))
    return mk("sbytes", items)


def sb_items(t: Term):
    if t.op == "sbytes":
        return list(t.args[0])
    if is_const(t) and isinstance(cval(t), bytes) and len(cval(t)) <= 4096:
        return [C(b) for b in cval(t)]
    return None


def ev_subscript(self, e: ast.Subscript, st: State) -> Term:
    base = self.ev(e.value, st)
    if isinstance(e.slice, ast.Slice):
        lo = self.ev(e.slice.lower, st) if e.slice.lower else NONE
        hi = self.ev(e.slice.upper, st) if e.slice.upper else NONE
        stp = self.ev(e.slice.step, st) if e.slice.step else NONE
        return self.do_subscript(base, None, (lo, hi, stp), st, e)
    idx = self.ev(e.slice, st)
    if idx.op == "sliceobj":
        return self.do_subscript(base, None, tuple(idx.args[:3]), st, e)
    return self.do_subscript(base, idx, None, st, e)


def _module_dict_item(self, modname: str, name: str, key):
    """the value a module-level `name = {<constant keys>: <names of classes / functions>}` literal gives for `key` (None when it is not of that form)"""
    m = self.prog.modules.get(modname)
    if m is None:
        return None
    defs = [n for n in m.tree.body if isinstance(n, (ast.Assign, ast.AnnAssign)) and any(isinstance(t, ast.Name) and t.id == name for t in (n.targets if isinstance(n, ast.Assign) else [n.target]))]
    if len(defs) != 1 or not isinstance(defs[0].value, ast.Dict):
        return None
    for k, v in zip(defs[0].value.keys, defs[0].value.values):
        if isinstance(k, ast.Constant) and k.value == key and isinstance(v, (ast.Name, ast.Attribute)):
            # the name as bound at that point of the module (a later def of the same name does not count)
            tgt = self.prog.resolve_expr_static(m, v)
            if isinstance(tgt, FuncInfo):
                return self.fterm(tgt)
            if isinstance(tgt, ClassInfo):
                return mk("class", tgt.qualname)
    return None


def do_subscript(self, base: Term, idx: Optional[Term], sl, st: State, node) -> Term:
    if sl is None and base.op == "global" and is_const(idx):
        # a module-level dictionary used as a registry: D[<key>] is what was registered for <key>, else the entry of the dictionary literal
        hit = self.item_overrides.get((base.args[0], base.args[1], cval(idx))) if self.registered else None
        if hit is None:
            hit = _module_dict_item(self, base.args[0], base.args[1], cval(idx))
        if hit is not None:
            return hit
    o = self.obj(st, base)
    if sl is not None:
        lo, hi, stp = sl
        if all(is_const(x) for x in sl):
            l, h, s = cval(lo), cval(hi), cval(stp)
            try:
                if is_const(base) or base.op == "static":
                    return self.lift(self.concrete(base)[l:h:s])
            except (TypeError, NotConst):
                pass
            if o is not None and o.kind in ("list", "bytearray") and o.exact:
                r = self.new_obj(st, o.kind)
                self.obj(st, r).items = o.items[l:h:s]
                return r
            if base.op == "tuple":
                return mk("tuple", tuple(base.args[0][l:h:s]))
            if base.op == "sbytes":
                return sbytes(base.args[0][l:h:s])
        self.emit("slice", node, st, base=base, lo=lo, hi=hi, step=stp)
        if o is not None:
            return mk("slice", base, lo, hi, stp, o.version)
        return mk("slice", base, lo, hi, stp)
    # index
    if is_const(idx):
        i = cval(idx)
        try:
            if is_const(base) or base.op == "static":
                v = self.concrete(base)[i]
                if isinstance(v, Term):
                    return v
                return self.lift(v)
        except NotConst:
            pass
        except (KeyError, IndexError, TypeError):
            self.emit("subscript", node, st, base=base, index=idx, certain_fail=True)
            if self.sym_bytes:
                raise PathDead()
            return mk("sub", base, idx)
        if base.op in ("tuple", "sbytes") and isinstance(i, int) and -len(base.args[0]) <= i < len(base.args[0]):
            return base.args[0][i]
        if o is not None and o.kind in ("list", "bytearray") and o.exact and isinstance(i, int):
            if -len(o.items) <= i < len(o.items):
                return o.items[i]
            self.emit("subscript", node, st, base=base, index=idx, certain_fail=True)
            if self.sym_bytes:
                raise PathDead()
            return mk("sub", base, idx)
        if o is not None and o.kind == "dict" and o.exact:
            try:
                if i in o.kv:
                    return o.kv[i]
                if self.sym_bytes:
                    # exact dictionary, constant key that is not in it: a definite KeyError
                    self.emit("raise", node, st, exc="KeyError", exc_term=mk("builtin", "KeyError"), args=(), reraise=False, implicit=True, construct="missing key")
                    raise PathDead()
            except TypeError:
                pass
    elif self.sym_bytes and o is not None and o.kind == "dict" and o.exact and TK(idx) in o.kv:
        return o.kv[TK(idx)]
    elif idx.op == "tuple" and all(is_const(x) for x in idx.args[0]) and o is not None and o.kind == "dict" and o.exact:
        k = tuple(cval(x) for x in idx.args[0])
        if k in o.kv:
            return o.kv[k]
    if o is not None and o.kind == "obj" and o.cls is not None and o.cls.lookup("__getitem__"):
        member = o.cls.lookup("__getitem__")[1]
        if isinstance(member, FuncInfo):
            return self.call_function(member, [base, idx], {}, st, node, self_term=base)
    sure_ok = False
    if base.op == "elem" and is_const(idx):
        alts = _ref_alternatives(base.args[0])
        if alts:
            objs = [self.obj(st, a) for a in alts]
            if all(x is not None and x.kind == "dict" for x in objs):
                try:
                    sure_ok = all((cval(idx) in x.kv) if x.exact else (cval(idx) in (x.sure or ())) for x in objs)
                except TypeError:
                    sure_ok = False
    if o is not None and o.kind == "dict" and not o.exact and o.sure and is_const(idx):
        try:
            sure_ok = cval(idx) in o.sure
        except TypeError:
            sure_ok = False
    ev = self.emit("subscript", node, st, base=base, index=idx, certain_ok=sure_ok)
    if is_const(idx) and cval(idx) in (0, -1) and not isinstance(cval(idx), bool):
        # the lookup succeeded on the continuing path: the container is not empty
        st.facts = st.facts + ((mk("truthy", base if o is None else base), True),)
    if o is not None:
        if o.kind == "dict" and not o.exact:
            # value written under the same key term?
            for (k, v, _) in reversed(o.writes):
                if k is idx:
                    return v
        return mk("sub", base, idx, o.version)
    return mk("sub", base, idx)


# ---------------------------------------------------------------------- operators
def ev_binop(self, e: ast.BinOp, st: State) -> Term:
    l = self.ev(e.left, st)
    r = self.ev(e.right, st)
    return self.binop(type(e.op).__name__, l, r, st, e)


def binop(self, op: str, l: Term, r: Term, st: State, node=None) -> Term:
    lo, ro = self.obj(st, l), self.obj(st, r)
    # concrete folding
    if (is_const(l) or l.op == "static") and (is_const(r) or r.op == "static"):
        try:
            v = _binop(getattr(ast, op)(), self.concrete(l), self.concrete(r))
            return self.lift(v)
        except NotConst:
            pass
    if op == "BitXor" and self.sym_bytes and lo is None and ro is None:
        from .terms import xor_canon

        return xor_canon(l, r)
    # exact list algebra
    if op == "Add" and lo is not None and ro is not None and lo.kind == "list" and ro.kind == "list" and lo.exact and ro.exact:
        return self.new_list(st, lo.items + ro.items)
    if op == "Add" and lo is not None and lo.kind == "list" and lo.exact and ro is None and (is_const(r) and isinstance(cval(r), list)):
        return self.new_list(st, lo.items + [C(x) for x in cval(r)])
    if op == "Mult" and lo is not None and lo.kind == "list" and lo.exact and is_const(r) and isinstance(cval(r), int) and cval(r) * max(1, len(lo.items)) <= 4096:
        return self.new_list(st, lo.items * cval(r))
    if op == "Mult" and ro is not None and ro.kind == "list" and ro.exact and is_const(l) and isinstance(cval(l), int) and cval(l) * max(1, len(ro.items)) <= 4096:
        return self.new_list(st, ro.items * cval(l))
    if op == "Add" and (l.op == "sbytes" or r.op == "sbytes"):
        li, ri = sb_items(l), sb_items(r)
        if li is not None and ri is not None:
            return sbytes(li + ri)
        # list + bytes (either order) is a TypeError in Python 3, whatever the contents
        for a, b in ((lo, r), (ro, l)):
            if a is not None and a.kind == "list" and b.op == "sbytes":
                self.emit("raise", node, st, exc="TypeError", exc_term=mk("builtin", "TypeError"), args=(), reraise=False, implicit=True, construct="list + bytes")
                raise PathDead()
    if op == "Mult" and l.op == "sbytes" and is_const(r) and isinstance(cval(r), int) and cval(r) * len(l.args[0]) <= 4096:
        return sbytes(l.args[0] * cval(r))
    if op == "Add" and l.op == "tuple" and r.op == "tuple":
        return mk("tuple", l.args[0] + r.args[0])
    if op == "Add" and l.op == "tuple" and is_const(r) and isinstance(cval(r), tuple):
        return mk("tuple", l.args[0] + tuple(C(x) for x in cval(r)))
    if op == "Add" and r.op == "tuple" and is_const(l) and isinstance(cval(l), tuple):
        return mk("tuple", tuple(C(x) for x in cval(l)) + r.args[0])
    # operator overloading on repo objects
    dunder = {"Add": "__add__", "Sub": "__sub__", "Mult": "__mul__", "Mod": "__mod__", "FloorDiv": "__floordiv__"}.get(op)
    if dunder and lo is not None and lo.kind == "obj" and lo.cls is not None:
        m = lo.cls.lookup(dunder)
        if m and isinstance(m[1], FuncInfo):
            return self.call_function(m[1], [l, r], {}, st, node, self_term=l)
    rd = {"Add": "__radd__", "Mult": "__rmul__"}.get(op)
    if rd and ro is not None and ro.kind == "obj" and ro.cls is not None:
        m = ro.cls.lookup(rd)
        if m and isinstance(m[1], FuncInfo):
            return self.call_function(m[1], [r, l], {}, st, node, self_term=r)
    # neutral elements
    if op == "Add":
        for a, b in ((l, r), (r, l)):
            if is_const(a) and cval(a) in (b"", "", 0) and not isinstance(cval(a), bool) and b.op not in ("ref",):
                if cval(a) == 0 and isinstance(cval(a), int):
                    continue
                return b
    lv = l
    rv = r
    if lo is not None and lo.kind != "obj":
        lv = mk("snap", l, lo.version)
    if ro is not None and ro.kind != "obj":
        rv = mk("snap", r, ro.version)
    self.emit("op", node, st, op=op, args=(lv, rv), result=None)
    return mk("bin", op, lv, rv)


def compare(self, op: str, l: Term, r: Term, st: State, node=None) -> Term:
    if (is_const(l) or l.op == "static") and (is_const(r) or r.op == "static"):
        try:
            return C(bool(_cmpop(getattr(ast, op)(), self.concrete(l), self.concrete(r))))
        except NotConst:
            pass
    if op in ("Is", "IsNot", "Eq", "NotEq") and l is r and l.op != "ref":
        if op in ("Is", "Eq"):
            return TRUE
        return FALSE
    def _tuple_items(t_):
        if t_.op == "tuple":
            return list(t_.args[0])
        if is_const(t_) and isinstance(cval(t_), tuple) and all(isinstance(x_, (int, str, bytes, bool, type(None))) for x_ in cval(t_)):
            return [C(x_) for x_ in cval(t_)]
        return None

    li_, ri_ = (_tuple_items(l), _tuple_items(r)) if op in ("Eq", "NotEq") and (l.op == "tuple" or r.op == "tuple") else (None, None)
    if li_ is not None and ri_ is not None and 1 <= len(li_) == len(ri_) <= 8:
        # tuples of the same length are equal iff they are equal item by item
        parts = [self.compare("Eq", a_, b_, st, node) for a_, b_ in zip(li_, ri_)]
        if any(is_const(p_) and not cval(p_) for p_ in parts):
            conj = FALSE
        else:
            parts = [p_ for p_ in parts if not is_const(p_)]
            conj = TRUE if not parts else parts[0] if len(parts) == 1 else mk("and", tuple(parts))
        if op == "Eq":
            return conj
        return C(not cval(conj)) if is_const(conj) else neg(conj)
    if op in ("Eq", "NotEq") and self.sym_bytes and (l.op == "sbytes" or r.op == "sbytes"):
        verdict = _sbytes_equal(self, l, r)
        if verdict is not None:
            return C(verdict if op == "Eq" else not verdict)
    if op in ("Is", "IsNot"):
        known = _none_status(self, l, st), _none_status(self, r, st)
        if r is NONE and known[0] is not None:
            return C(known[0] if op == "Is" else not known[0])
        if l is NONE and known[1] is not None:
            return C(known[1] if op == "Is" else not known[1])
        if l.op in ("class", "func") and r.op in ("class", "func"):
            return C((l is r) if op == "Is" else (l is not r))
        # a sentinel `_x = object()` at module level is identical to nothing but itself
        for a, b in ((l, r), (r, l)):
            if a.op == "global" and (is_const(b) or b.op in ("sbytes", "tuple", "ref", "class", "func")) and _is_object_sentinel(self, a):
                return C(op == "IsNot")
    if op in ("In", "NotIn"):
        ro = self.obj(st, r)
        if ro is not None and ro.kind == "dict" and ro.exact and self.sym_bytes and not is_const(l) and l.op not in ("phi",):
            # a symbolic key: present iff this very term was stored; absent from an empty dictionary; otherwise undecided
            if TK(l) in ro.kv:
                return C(op == "In")
            if not ro.kv:
                return C(op != "In")
        if ro is not None and ro.kind == "dict" and ro.exact and is_const(l):
            try:
                res = cval(l) in ro.kv
                return C(res if op == "In" else not res)
            except TypeError:
                pass
        if ro is not None and ro.kind in ("list", "set") and ro.exact and is_const(l) and all(is_const(x) for x in ro.items):
            res = cval(l) in [cval(x) for x in ro.items]
            return C(res if op == "In" else not res)
        if r.op == "tuple" and is_const(l) and all(is_const(x) for x in r.args[0]):
            res = cval(l) in [cval(x) for x in r.args[0]]
            return C(res if op == "In" else not res)
        if ro is not None:
            r = mk("snap", r, ro.version)
    if op in ("Eq", "NotEq"):
        lo, ro = self.obj(st, l), self.obj(st, r)
        if lo is not None and lo.kind == "obj" and lo.cls is not None:
            m = lo.cls.lookup("__eq__")
            if m and isinstance(m[1], FuncInfo):
                v = self.call_function(m[1], [l, r], {}, st, node, self_term=l)
                return v if op == "Eq" else neg(self.truth(v, st))
    self.emit("op", node, st, op=op, args=(l, r), result=None)
    return mk("cmp", op, l, r)


def _sbytes_equal(self, l: Term, r: Term):
    """equality of two byte strings of known length in concrete-control scenarios: True / False when decided, else None.
    Decided: different lengths; identical terms; a position holding two different constants; and -- only when the scenario
    enables `mac_axiom` (the property's own MAC assumption) -- an aligned block that is a complete E_k(x) on both sides with
    different (k, x), or a complete E_k(x) on one side and anything else on the other: block-cipher outputs are taken to differ
    from the outputs of other inputs and from unrelated bytes."""
    li, ri = sb_items(l), sb_items(r)
    if li is None or ri is None:
        return None
    if len(li) != len(ri):
        return False
    if all(a is b for a, b in zip(li, ri)):
        return True
    for a, b in zip(li, ri):
        if is_const(a) and is_const(b) and cval(a) != cval(b):
            return False
    if getattr(self, "mac_axiom", False):
        for a, b in zip(li, ri):
            # a byte replaced by the scenario's tamper symbol differs from whatever stood / is computed there
            if (a.op == "sym" and a.args[0] == "tamper" and a is not b) or (b.op == "sym" and b.args[0] == "tamper" and a is not b):
                return False
        for j in range(0, len(li) - 15, 16):
            a0, b0 = li[j], ri[j]
            if a0.op == "aesE" and b0.op == "aesE" and a0.args[2] == 0 and b0.args[2] == 0:
                ka, kb = (a0.args[0], a0.args[1]), (b0.args[0], b0.args[1])
                fa = all(x.op == "aesE" and x.args[0] is ka[0] and x.args[1] is ka[1] and x.args[2] == i for i, x in enumerate(li[j:j + 16]))
                fb = all(x.op == "aesE" and x.args[0] is kb[0] and x.args[1] is kb[1] and x.args[2] == i for i, x in enumerate(ri[j:j + 16]))
                if fa and fb and not (ka[0] is kb[0] and ka[1] is kb[1]):
                    return False
        # a complete cipher block (a MAC) compared with 16 bytes that are not that very block: taken to differ
        for j in range(0, len(li) - 15, 16):
            for side, other in ((li, ri), (ri, li)):
                a0 = side[j]
                if a0.op == "aesE" and a0.args[2] == 0 and all(x.op == "aesE" and x.args[0] is a0.args[0] and x.args[1] is a0.args[1] and x.args[2] == i for i, x in enumerate(side[j:j + 16])):
                    if any(p_ is not q_ for p_, q_ in zip(side[j:j + 16], other[j:j + 16])):
                        return False
    return None


def _is_object_sentinel(self, g: Term) -> bool:
    m = self.prog.modules.get(g.args[0])
    if m is None:
        return False
    for st_ in m.tree.body:
        if isinstance(st_, ast.Assign) and len(st_.targets) == 1 and isinstance(st_.targets[0], ast.Name) and st_.targets[0].id == g.args[1]:
            v = st_.value
            return isinstance(v, ast.Call) and isinstance(v.func, ast.Name) and v.func.id == "object" and not v.args and not v.keywords
    return False


def _none_status(self, t: Term, st: State):
    """True: is None; False: certainly not None; None: unknown"""
    if t is NONE:
        return True
    if is_const(t) or t.op in ("static", "ref", "tuple", "sbytes", "func", "class", "bound", "closure", "partial", "module", "bin", "cmp", "len", "builtin"):
        return False
    if t.op == "call" and isinstance(t.args[0], Term) and t.args[0].op == "builtin" and t.args[0].args[0] in ("int.from_bytes", "len", "int", "bytes", "str", "bool", "ord", "abs", "hex", "repr", "sorted", "list", "tuple", "dict", "set", "bytearray", "divmod", "sum"):
        return False  # the result of a constructor / conversion builtin is an object of that type
    if t.op == "byteof":
        return False
    for (f, pol) in st.facts:
        if f.op == "cmp" and f.args[0] in ("Is", "IsNot") and f.args[1] is t and f.args[2] is NONE:
            return pol if f.args[0] == "Is" else (not pol)
    return None


def _fn_tuple_len(self, fi, depth=0):
    """k when every return statement of the repository function gives a tuple display of k items, or the result of such a function"""
    if fi is None or not isinstance(fi.node, (ast.FunctionDef,)) or fi.is_generator or depth > 4:
        return None
    lens = set()
    stack = list(fi.node.body)
    while stack:
        n = stack.pop()
        if isinstance(n, (ast.FunctionDef, ast.AsyncFunctionDef, ast.ClassDef, ast.Lambda)):
            continue
        if isinstance(n, ast.Return):
            v = n.value
            if isinstance(v, ast.Tuple) and not any(isinstance(x, ast.Starred) for x in v.elts):
                lens.add(len(v.elts))
                continue
            callee = None
            if isinstance(v, ast.Call):
                if isinstance(v.func, ast.Attribute) and isinstance(v.func.value, ast.Name) and v.func.value.id in ("self", "cls") and fi.cls is not None:
                    r_ = fi.cls.lookup(v.func.attr)
                    callee = r_[1] if r_ is not None and isinstance(r_[1], FuncInfo) else None
                elif isinstance(v.func, ast.Name):
                    t_ = self.prog.resolve_expr_static(fi.module, v.func)
                    callee = t_ if isinstance(t_, FuncInfo) else None
            k = _fn_tuple_len(self, callee, depth + 1) if callee is not None else None
            if k is None:
                return None
            lens.add(k)
            continue
        stack.extend(ast.iter_child_nodes(n))
    return lens.pop() if len(lens) == 1 else None


def _result_tuple_len(self, v: Term):
    """k when v is the (uninterpreted) result of a call of a repository function that returns k items on every path"""
    if not (v.op == "call" and isinstance(v.args[0], Term) and v.args[0].op in ("func", "bound")):
        return None
    return _fn_tuple_len(self, self.fis.get(v.args[0].args[1]))


# ---------------------------------------------------------------------- calls
def ev_args(self, e: ast.Call, st: State):
    args: List[Term] = []
    for a in e.args:
        if isinstance(a, ast.Starred):
            v = self.ev(a.value, st)
            items = self.iter_items(v, st)
            if items is None:
                k_ = _result_tuple_len(self, v)
                if k_ is not None:
                    # the result of a repository function that returns a tuple display of k items on every path: its k items
                    items = [mk("sub", v, C(i)) for i in range(k_)]
            if items is None:
                args.append(mk("star", v))
            else:
                args.extend(items)
        else:
            args.append(self.ev(a, st))
    kwargs: Dict[str, Term] = {}
    for k in e.keywords:
        if k.arg is None:
            v = self.ev(k.value, st)
            o = self.obj(st, v)
            if o is not None and o.kind == "dict" and o.exact and all(isinstance(x, str) for x in o.kv):
                kwargs.update(o.kv)
            else:
                kwargs["**"] = v
        else:
            kwargs[k.arg] = self.ev(k.value, st)
    return args, kwargs


def ev_call(self, e: ast.Call, st: State) -> Term:
    # super() needs lexical info
    if isinstance(e.func, ast.Name) and e.func.id == "super" and not e.args:
        fi = self.frame.fi
        while fi.parent is not None and fi.cls is None:
            fi = fi.parent
        if fi.cls is None or self.frame.self_term is None:
            raise Unsupported("super() outside method at %d" % e.lineno)
        return mk("super", fi.cls.qualname, self.frame.self_term)
    fn = self.ev(e.func, st)
    args, kwargs = self.ev_args(e, st)
    return self.call(fn, args, kwargs, st, e)


def call(self, fn: Term, args: List[Term], kwargs: Dict[str, Term], st: State, node) -> Term:
    op = fn.op
    if op == "bound_asdict" and not args and not kwargs:
        # record._asdict(): the dictionary field name -> value, in field order
        rec = fn.args[0]
        fl = sorted(self.nt_fields.get(rec.uid, ()))
        if len(fl) == 1:
            d_ = self.new_obj(st, "dict")
            o_ = self.obj(st, d_)
            for nm_, v_ in zip(fl[0], rec.args[0]):
                o_.kv[nm_] = v_
            return d_
    if op == "func":
        return self.call_function(self.fi_of(fn), args, kwargs, st, node)
    if op == "bound":
        fi = self.fis[fn.args[1]]
        return self.call_function(fi, [fn.args[2]] + args, kwargs, st, node, self_term=fn.args[2])
    if op == "closure":
        fi = self.fis[fn.args[1]]
        cf = fn.args[2]
        if len(fn.args) > 3 and not (cf < len(self.frames) and self.frames[cf].uid == fn.args[3]):
            # the defining activation is still running somewhere else on the stack, or has returned: its variables as they were left
            live = [i for i, f_ in enumerate(self.frames) if f_.uid == fn.args[3]]
            if live:
                return self.call_function(fi, args, kwargs, st, node, closure_frame=live[0])
            return self.call_function(fi, args, kwargs, st, node, captured=self.dead_envs.get(fn.args[3], {}))
        return self.call_function(fi, args, kwargs, st, node, closure_frame=cf)
    if op == "class":
        c = self.prog.classes.get(fn.args[0])
        if c is not None:
            return self.instantiate(c, args, kwargs, st, node)
    if op == "hmacmeth":
        h_ = getattr(self, "hmac_model", None)
        if h_ is None:
            raise Unsupported("method %s of an HMAC object outside a scenario that models HMAC" % fn.args[1])
        return h_(self, fn.args[0], fn.args[1], list(args), kwargs, st, node)
    if op == "partial":
        return self.call(fn.args[0], list(fn.args[1]) + list(args), {**dict(fn.args[2]), **kwargs}, st, node)
    if op == "opcaller" and len(args) == 1 and not kwargs:
        # operator.methodcaller("m", *a)(x) is x.m(*a); attrgetter("a")(x) is x.a; itemgetter(i)(x) is x[i]
        kind, a_ = fn.args[0], fn.args[1]
        if kind == "methodcaller" and isinstance(cval(a_[0]), str):
            return self.mcall(args[0], cval(a_[0]), list(a_[1:]), st, node)
        if kind == "attrgetter" and len(a_) == 1 and isinstance(cval(a_[0]), str) and "." not in cval(a_[0]):
            return self.get_attr(args[0], cval(a_[0]), st, node)
        if kind == "itemgetter" and len(a_) == 1:
            return self.do_subscript(args[0], a_[0], None, st, node)
    if op in ("phi", "or"):
        # call through a merged callable (`f or g` selects one of its operands): try each under a choice frame
        results = []
        saved = st.ctx
        uid = fresh_uid()
        alts = fn.args[1:] if op == "phi" else (fn.args[0] if len(fn.args) == 1 and isinstance(fn.args[0], tuple) else fn.args)
        saved_facts = st.facts
        # `f = g if c else h; f(...)`: each callee runs under the condition that selects it
        real_cond = op == "phi" and len(alts) == 2 and isinstance(fn.args[0], Term) and fn.args[0].op not in ("sym", "const")
        for k, alt in enumerate(alts):
            if real_cond:
                st.ctx = saved + (("if", fn.args[0], k == 0, fresh_uid()),)
                self.add_fact(st, fn.args[0], k == 0)
            else:
                st.ctx = saved + (("choice", uid, k, show(alt, 2)),)
            try:
                results.append(self.call(alt, args, kwargs, st, node))
            except PathDead:
                pass
            finally:
                st.ctx = saved
                st.facts = saved_facts
        if not results:
            raise PathDead()
        r = results[0]
        for x in results[1:]:
            r = r if r is x else mk("phi", fn.args[0] if op == "phi" else mk("sym", "which", uid), r, x)
        return r
    return self.models.call_model(self, fn, args, kwargs, st, node)


def call_function(self, fi: FuncInfo, args, kwargs, st: State, node, self_term=None, closure_frame=None, captured=None) -> Term:
    depth = len(self.frames)
    active = [f.fi for f in self.frames]
    site = fresh_uid()
    hook = self.summaries.get(fi.qualname) if self.summaries else None
    if hook is not None:
        r = hook(self, fi, args, kwargs, st, node)
        if r is not None:
            return r
    summary = self.models.repo_summary(self, fi, args, kwargs, st, node)
    if summary is not None:
        return summary
    if fi in active or not self.policy(self, fi, depth):
        evt = fresh_uid()
        res = mk("call", self.fterm(fi), tuple(args), tuple(sorted(kwargs.items())), evt)
        self.emit("call", node, st, callee=fi, args=tuple(args), kwargs=dict(kwargs), result=res, inlined=False, recv=self_term, site=site)
        _havoc_args(self, args, st)
        return res
    bind = self.bind_params(fi, args, kwargs, st, node)
    self._note_type_hints(fi, bind)
    ev0 = self.emit("call", node, st, callee=fi, args=tuple(args), kwargs=dict(kwargs), result=None, inlined=True, recv=self_term, site=site)
    saved_ctx = st.ctx
    st.ctx = st.ctx + (("call", site, fi.qualname),)
    if closure_frame is None and fi.parent is not None and captured is None:
        # nested def referenced by name: find defining frame on the stack
        for i in range(len(self.frames) - 1, -1, -1):
            if self.frames[i].fi is fi.parent:
                closure_frame = i
                break
    try:
        val, _ = self._run_body(fi, bind, st, closure_frame, node, self_term if self_term is not None else (args[0] if (fi.cls is not None and fi.kind in ("function", "classmethod") and args) else None),
                                captured=captured)
    finally:
        st.ctx = saved_ctx
    ev0.d["result"] = val
    self.emit("callret", node, st, callee=fi, result=val, site=site)
    return val


def _note_type_hints(self, fi: FuncInfo, bind):
    """annotations of the callee's parameters type the argument terms bound to them"""
    from .types import ann_type

    if not isinstance(fi.node, (ast.FunctionDef, ast.AsyncFunctionDef)):
        return
    for a in fi.node.args.posonlyargs + fi.node.args.args + fi.node.args.kwonlyargs:
        if a.annotation is not None and a.arg in bind:
            t = ann_type(self, fi.module, a.annotation)
            if t is not None and "?" not in t:
                v = bind[a.arg]
                while v.op == "snap":
                    v = v.args[0]
                if v.op not in ("const", "ref"):
                    self.type_hints.setdefault(v.uid, t)


def _havoc_args(self, args, st):
    """containers handed to a call that is not analysed in line may be mutated by it"""
    for a in args:
        o = self.obj(st, a)
        if o is not None and o.kind in ("list", "dict", "bytearray", "set"):
            if o.kind == "dict":
                if o.exact:
                    o.writes = [(k.term if hasattr(k, 'term') else C(k), v, o.created_ctx) for k, v in o.kv.items()]
                    o.kv = {}
                    o.exact = False
                o.sure = set()
                o.writes.append((sym("callee_key"), sym("callee_value"), st.ctx))
            else:
                if o.exact:
                    o.items = [(x, o.created_ctx, "init") for x in o.items]
                    o.exact = False
                o.items.append((sym("callee_item"), st.ctx, "callee"))
            o.version += 1


def bind_params(self, fi: FuncInfo, args, kwargs, st: State, node) -> Dict[str, Term]:
    a = fi.node.args
    pos = [x.arg for x in a.posonlyargs + a.args]
    bind: Dict[str, Term] = {}
    args = list(args)
    if any(x.op == "star" for x in args):
        # unknown positional splat: bind everything after it symbolically
        i = next(i for i, x in enumerate(args) if x.op == "star")
        for j, nm in enumerate(pos):
            bind[nm] = args[j] if j < i else mk("sub", args[i].args[0], C(j - i))
        args = []
        pos_left = []
    else:
        for nm, v in zip(pos, args):
            bind[nm] = v
        extra = args[len(pos):]
        if a.vararg:
            bind[a.vararg.arg] = mk("tuple", tuple(extra)) if not all(is_const(x) for x in extra) else C(tuple(cval(x) for x in extra))
        elif extra:
            self.emit("badcall", node, st, callee=fi, reason="too many positional arguments")
    kw = dict(kwargs)
    unknown_kw = kw.pop("**", None)
    for nm in pos + [x.arg for x in a.kwonlyargs]:
        if nm in kw:
            bind[nm] = kw.pop(nm)
    if a.kwarg:
        d = self.new_obj(st, "dict")
        self.obj(st, d).kv = dict(kw)
        bind[a.kwarg.arg] = d
        kw = {}
    elif kw:
        self.emit("badcall", node, st, callee=fi, reason="unexpected keyword %s" % sorted(kw))
    # defaults
    defaults = a.defaults
    for nm, dflt in zip(pos[len(pos) - len(defaults):], defaults):
        if nm not in bind:
            bind[nm] = self.eval_default(fi, dflt, st) if unknown_kw is None else sym("kw_" + nm)
    for x, dflt in zip(a.kwonlyargs, a.kw_defaults):
        if x.arg not in bind:
            bind[x.arg] = self.eval_default(fi, dflt, st) if dflt is not None else sym("kwonly_" + x.arg)
    for nm in pos:
        if nm not in bind:
            bind[nm] = sym("missing_" + nm) if unknown_kw is not None else mk("missing", nm)
            if unknown_kw is None:
                self.emit("badcall", node, st, callee=fi, reason="missing argument %s" % nm)
    return bind


def eval_default(self, fi: FuncInfo, expr, st: State) -> Term:
    """defaults are evaluated at definition time in the defining scope"""
    try:
        v = self.prog.fold(fi.module, expr, cls=fi.cls if fi.parent is None else None)
        return self.lift(v)
    except (NotConst, RecursionError):
        pass
    from .heap import FrameInfo

    owner = fi.parent
    dummy_fi = fi
    self.frames.append(FrameInfo(dummy_fi, None))
    st.envs.append({})
    try:
        if fi.cls is not None and fi.parent is None:
            # names in a class body resolve to class attributes first
            for k, ex in fi.cls.attrs.items():
                try:
                    st.envs[-1][k] = self.lift(self.prog.fold(fi.cls.module, ex, cls=fi.cls))
                except (NotConst, RecursionError):
                    pass
        return self.ev(expr, st)
    finally:
        st.envs.pop()
        self.frames.pop()


def instantiate(self, c: ClassInfo, args, kwargs, st: State, node) -> Term:
    special = self.models.instantiate_model(self, c, args, kwargs, st, node)
    if special is not None:
        return special
    r = self.new_obj(st, "obj", cls=c, label=c.name)
    self.emit("new", node, st, cls=c, args=tuple(args), kwargs=dict(kwargs), result=r)
    init = c.lookup("__init__")
    if init is not None and isinstance(init[1], FuncInfo):
        self.call_function(init[1], [r] + list(args), kwargs, st, node, self_term=r)
    else:
        ext = [x for x in c.external_bases() if x != "object"]
        o = self.obj(st, r)
        if ext:
            o.attrs["__init_args__"] = mk("tuple", tuple(args))
    return r


def inline(self, *a, **k):
    return self.call_function(*a, **k)


def mcall(self, recv: Term, name: str, args, st: State, node=None, kwargs=None) -> Term:
    """call method `name` on a term"""
    fn = self.get_attr(recv, name, st, node)
    return self.call(fn, list(args), dict(kwargs or {}), st, node)


# ---------------------------------------------------------------------- iteration / comprehension
def _bytes_of_ints(v: Term, depth: int = 0) -> Optional[List[Term]]:
    """the bytes, one term each, of a byte string assembled from W.to_bytes(n, order) pieces with constant n (struct.pack of unsigned fields is modelled as such a
    concatenation) and constants: byte i of W.to_bytes(n, "big") is (W >> 8 * (n - 1 - i)) & 0xFF -- valid whenever the conversion does not raise"""
    def unsnap(t):
        while isinstance(t, Term) and t.op == "snap":
            t = t.args[0]
        return t

    v = unsnap(v)
    if depth > 40:
        return None
    if is_const(v):
        return [C(i) for i in cval(v)] if isinstance(cval(v), bytes) and len(cval(v)) <= 64 else None
    if v.op == "bin" and v.args[0] == "Add":
        a, b = _bytes_of_ints(v.args[1], depth + 1), _bytes_of_ints(v.args[2], depth + 1)
        return a + b if a is not None and b is not None else None
    if v.op == "call" and isinstance(v.args[0], Term) and v.args[0].op == "meth" and v.args[0].args[1] == "to_bytes" and len(v.args[1]) == 2 and not v.args[2]:
        n_, order = unsnap(v.args[1][0]), unsnap(v.args[1][1])
        if is_const(n_) and isinstance(cval(n_), int) and 0 < cval(n_) <= 16 and is_const(order) and cval(order) in ("big", "little"):
            w = v.args[0].args[0]
            n = cval(n_)
            out = []
            for i in range(n):
                sh = 8 * (n - 1 - i) if cval(order) == "big" else 8 * i
                out.append(mk("bin", "BitAnd", mk("bin", "RShift", w, C(sh)) if sh else w, C(255)))
            return out
    return None


def iter_items(self, v: Term, st: State) -> Optional[List[Term]]:
    """concrete list of element terms if the iterable has statically known elements, else None"""
    if is_const(v):
        x = cval(v)
        if isinstance(x, (tuple, list, frozenset, range)):
            return [self.lift(i) for i in x]
        if isinstance(x, (bytes, str)) and len(x) <= 64:
            return [C(i) for i in x]
        if isinstance(x, dict):
            return [self.lift(i) for i in x]
        return None
    if v.op == "static":
        x = self.statics[v.args[0]]
        if isinstance(x, (list, tuple)) and len(x) <= 1024:
            return [i if isinstance(i, Term) else self.lift(i) for i in x]
        if isinstance(x, dict) and len(x) <= 1024:
            return [self.lift(i) for i in x]
        return None
    if v.op in ("tuple", "sbytes"):
        return list(v.args[0])
    if v.op == "call" and isinstance(v.args[0], Term) and v.args[0].op == "builtin" and v.args[0].args[0] == "divmod" and len(v.args[1]) == 2 and not v.args[2]:
        # divmod(a, b) is the pair (a // b, a % b)
        a_, b_ = v.args[1]
        return [mk("bin", "FloorDiv", a_, b_), mk("bin", "Mod", a_, b_)]
    if v.op == "ref":
        o = self.obj(st, v)
        if o is not None and o.kind in ("list", "set", "bytearray") and o.exact and (not o.is_gen or self.sym_bytes):
            return list(o.items)
        if o is not None and o.kind == "dict" and o.exact:
            return [k.term if isinstance(k, TK) else self.lift(k) for k in o.kv]
        if o is not None and o.kind in ("list", "bytearray") and not o.exact and len(o.items) == 1 and isinstance(getattr(o, "base", None), Term):
            # list(B) / bytearray(B) of a byte string whose bytes are known one by one (see below)
            bi = _bytes_of_ints(o.base)
            if bi is not None:
                return bi
        return None
    bi = _bytes_of_ints(v)
    if bi is not None:
        return bi
    if v.op == "iterview":
        kind, base = v.args[0], v.args[1]
        if kind == "zip":
            lists = [self.iter_items(x, st) for x in base.args[0]]
            if all(l is not None for l in lists):
                n = min(len(l) for l in lists) if lists else 0
                return [mk("tuple", tuple(l[i] for l in lists)) for i in range(n)]
            return None
        if kind == "zip_longest":
            lists = [self.iter_items(x, st) for x in base.args[0]]
            if all(l is not None for l in lists):
                n = max(len(l) for l in lists) if lists else 0
                return [mk("tuple", tuple(l[i] if i < len(l) else v.args[2] for l in lists)) for i in range(n)]
            return None
        if kind == "pairwise":
            items = self.iter_items(base, st)
            return None if items is None else [mk("tuple", (items[i], items[i + 1])) for i in range(len(items) - 1)]
        if kind == "enumerate":
            items = self.iter_items(base, st)
            start = cval(v.args[2]) if len(v.args) > 2 and is_const(v.args[2]) else 0
            if items is not None:
                return [mk("tuple", (C(i + start), x)) for i, x in enumerate(items)]
            return None
        if kind == "reversed":
            items = self.iter_items(base, st)
            return None if items is None else list(reversed(items))
        if kind in ("items", "keys", "values"):
            o = self.obj(st, base)
            if o is not None and o.kind == "dict" and o.exact:
                if kind == "items":
                    return [mk("tuple", (k.term if isinstance(k, TK) else self.lift(k), x)) for k, x in o.kv.items()]
                if kind == "keys":
                    return [k.term if isinstance(k, TK) else self.lift(k) for k in o.kv]
                return list(o.kv.values())
            if base.op == "static" and isinstance(self.statics[base.args[0]], dict):
                d = self.statics[base.args[0]]
                if kind == "items":
                    return [mk("tuple", (self.lift(k), x if isinstance(x, Term) else self.lift(x))) for k, x in d.items()]
                if kind == "keys":
                    return [self.lift(k) for k in d]
                return [x if isinstance(x, Term) else self.lift(x) for x in d.values()]
            return None
    return None


def unpack_to(self, v: Term, n: int, st: State, node) -> List[Term]:
    if is_const(v) and isinstance(cval(v), (tuple, list)) and len(cval(v)) == n:
        return [self.lift(x) for x in cval(v)]
    if v.op == "tuple" and len(v.args[0]) == n:
        return list(v.args[0])
    items = self.iter_items(v, st)
    if items is not None and len(items) == n:
        return items
    if v.op == "elem" and v.args[0].op == "tuple" and len(v.args[0].args[0]) == n:
        return [mk("elem", x, v.args[1]) for x in v.args[0].args[0]]
    if v.op == "elem" and v.args[0].op == "phi":
        inner = self.unpack_to(v.args[0], n, st, node)
        return [mk("elem", x, v.args[1]) for x in inner]
    if v.op == "phi":
        a = self.unpack_to(v.args[1], n, st, node)
        b = self.unpack_to(v.args[2], n, st, node)
        return [x if x is y else mk("phi", v.args[0], x, y) for x, y in zip(a, b)]
    self.emit("unpack", node, st, value=v, n=n, known_len=(len(items) if items is not None else (len(v.args[0]) if v.op == "tuple" else None)))
    return [mk("sub", v, C(i)) for i in range(n)]


def ev_comp(self, e, st: State) -> Term:
    kind = {ast.ListComp: "list", ast.GeneratorExp: "gen", ast.SetComp: "set", ast.DictComp: "dict"}[type(e)]
    # comprehension has its own scope
    st.envs.append(dict(st.envs[-1]))
    from .heap import FrameInfo

    cur = self.frame
    fr = FrameInfo(cur.fi, cur.closure_frame, cur.self_term)
    fr.globals_decl = cur.globals_decl
    # keep closure lookup working: the comprehension frame *is* a copy of the enclosing env
    self.frames.append(fr)
    try:
        out_items: List[Term] = []
        out_kv: List[Tuple[Term, Term]] = []
        symbolic = [False]
        lrecs: List[LoopRec] = []

        def rec(gi):
            if gi == len(e.generators):
                if kind == "dict":
                    out_kv.append((self.ev(e.key, st), self.ev(e.value, st)))
                else:
                    out_items.append(self.ev(e.elt, st))
                return
            g = e.generators[gi]
            itv = self.ev(g.iter, st)
            items = self.iter_items(itv, st) if not symbolic[0] else None
            if items is not None and self.unrolled_total + len(items) <= self.max_unroll:
                self.unrolled_total += len(items)
                for it in items:
                    self.assign_to(g.target, it, st)
                    ok = True
                    for c in g.ifs:
                        cv = self.truth(self.ev(c, st), st)
                        if is_const(cv):
                            if not cval(cv):
                                ok = False
                                break
                        else:
                            raise Unsupported("symbolic filter in unrolled comprehension at %d" % e.lineno)
                    if ok:
                        rec(gi + 1)
                return
            symbolic[0] = True
            lid = fresh_uid()
            lr = LoopRec(lid, "comp", e, self.frame.fi)
            lr.iter = itv
            self.loops[lid] = lr
            lrecs.append(lr)
            saved_ctx, saved_facts = st.ctx, st.facts
            st.ctx = st.ctx + (("loop", lid),)
            try:
                el = self.elem_of(itv, lid, st)
                lr.target = el
                self.emit("iter", g.iter, st, iterable=itv, loop=lid)
                self.assign_to(g.target, el, st)
                for c in g.ifs:
                    cv = self.truth(self.ev(c, st), st)
                    lr.conds.append(cv)
                    st.ctx = st.ctx + (("if", cv, True, fresh_uid()),)
                    st.facts = st.facts + ((cv, True),)
                rec(gi + 1)
            finally:
                st.ctx, st.facts = saved_ctx, saved_facts

        rec(0)
    finally:
        self.frames.pop()
        st.envs.pop()
    if not symbolic[0]:
        if kind == "dict":
            r = self.new_obj(st, "dict")
            o = self.obj(st, r)
            for k, v in out_kv:
                if is_const(k):
                    o.kv[cval(k)] = v
                else:
                    o.exact = False
                    o.writes.append((k, v, st.ctx))
            return r
        if kind == "set":
            r = self.new_obj(st, "set")
            self.obj(st, r).items = out_items
            return r
        r = self.new_list(st, out_items)
        return r
    lr = lrecs[0]
    lr.comp_kind = kind
    if kind == "dict":
        lr.elt = mk("tuple", out_kv[0])
    else:
        lr.elt = out_items[0]
    return mk("comp", kind, lr.elt, lr.iter, lr.id, tuple(l.id for l in lrecs[1:]))


def elem_of(self, itv: Term, lid: int, st: State) -> Term:
    """symbolic element of an iterable (sees through lists filled by a single producer)"""
    o = self.obj(st, itv)
    if o is not None and o.kind == "list" and not o.exact and len(o.items) == 1 and o.items[0][2] == "from" and isinstance(getattr(o, "base", None), Term) and o.base.op == "iterview" \
            and o.base.args[0] in ("zip", "zip_longest", "enumerate"):
        # list(zip(...)) that was not changed since: its element is the element of the view
        return self.elem_of(o.base, lid, st)
    if o is not None and o.kind == "list" and not o.exact:
        entries = [it for it in o.items]
        terms = []
        for it in entries:
            t = it[0]
            if not any(t is x for x in terms):
                terms.append(t)
        if len(terms) == 1:
            return mk("elem", terms[0], lid)
        if terms:
            r = terms[0]
            for x in terms[1:]:
                r = mk("phi", mk("sym", "which", lid), r, x)
            return mk("elem", r, lid)
    if itv.op == "iterview":
        kind = itv.args[0]
        if kind == "enumerate":
            inner = self.elem_of(itv.args[1], lid, st)
            start = itv.args[2] if len(itv.args) > 2 else C(0)
            idx = mk("index", lid)
            if not (is_const(start) and cval(start) == 0):
                idx = mk("bin", "Add", idx, start)
            return mk("tuple", (idx, inner))
        if kind == "zip":
            return mk("tuple", tuple(self.elem_of(x, lid, st) for x in itv.args[1].args[0]))
        if kind == "zip_longest":
            # an item of the longest input; the shorter inputs contribute their own items or the fill value
            return mk("tuple", tuple(mk("elem", mk("padded", x, itv.args[2]), lid) for x in itv.args[1].args[0]))
        if kind == "reversed":
            ro = self.obj(st, itv.args[1])
            if ro is not None and ro.kind == "list" and not ro.exact and isinstance(getattr(ro, "base", None), Term) and ro.base.op == "iterview" and ro.base.args[0] in ("zip", "zip_longest"):
                return self.elem_of(itv.args[1], lid, st)
        if kind == "items":
            return mk("tuple", (mk("key", itv.args[1], lid), mk("value", itv.args[1], lid)))
    return mk("elem", itv, lid)
