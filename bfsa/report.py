"""Obligation bookkeeping, known findings, evidence writer, exit codes."""
from __future__ import annotations

import json
import os
import re
import sys
import time
from typing import Any, Dict, List, Optional

VERIF = os.path.dirname(os.path.dirname(os.path.abspath(__file__)))
KNOWN_FILE = os.path.join(VERIF, "KNOWN_FINDINGS.txt")
FLOORS_FILE = os.path.join(VERIF, "spec", "floors.json")
EVIDENCE_DIR = os.environ.get("BFSA_EVIDENCE_DIR") or os.path.join(VERIF, "evidence")


class Obligation:
    __slots__ = ("rule", "fn", "construct", "where", "status", "detail", "nontrivial")

    def __init__(self, rule, fn, construct, where, status, detail, nontrivial):
        self.rule, self.fn, self.construct, self.where, self.status, self.detail, self.nontrivial = rule, fn, construct, where, status, detail, nontrivial

    @property
    def key(self) -> str:
        return "%s|%s|%s" % (self.rule, self.fn, self.construct)

    def as_dict(self):
        return {"rule": self.rule, "function": self.fn, "construct": self.construct, "where": self.where, "verdict": self.status, "detail": self.detail}


def norm_construct(s: str) -> str:
    s = re.sub(r"\s+", " ", s.strip())
    s = re.sub(r"#\d+", "", s)  # event ids
    s = re.sub(r"&(\w+?)\d+\b", r"&\1", s)  # heap ids
    s = re.sub(r"@(exit)?L\d+", "@L", s)
    s = re.sub(r"\?(\w+?)\d+\b", r"?\1", s)
    return s[:300]


LOOKUP_NAMES = ("KeyError", "IndexError", "IndexError|KeyError")


def _lookup_aliases(key: str) -> List[str]:
    m = re.match(r"^(.*\.escape:)(IndexError\|KeyError|KeyError|IndexError)(\|.*)$", key)
    if not m:
        return []
    return [m.group(1) + n + m.group(3) for n in LOOKUP_NAMES if n != m.group(2)]


def load_known() -> Dict[str, List[Dict[str, str]]]:
    """property id -> list of {key, what}; 'fixed:' lines are informational only (they suppress nothing)"""
    out: Dict[str, List[Dict[str, str]]] = {}
    if not os.path.exists(KNOWN_FILE):
        return out
    for line in open(KNOWN_FILE, encoding="utf-8"):
        line = line.rstrip("\n")
        if not line.startswith("known:"):
            continue
        m = re.match(r"known:\s+property=(\S+)\s+key=(.*?)\s+::\s+(.*)$", line)
        if not m:
            continue
        out.setdefault(m.group(1), []).append({"key": m.group(2), "what": m.group(3)})
    return out


class Check:
    def __init__(self, pid: str, tier: str, level: str = "other"):
        self.pid = pid
        self.tier = tier
        self.level = level
        self.t0 = time.time()
        self.obls: List[Obligation] = []
        self.assumptions: List[str] = []
        self.info: Dict[str, Any] = {}
        self.explanation = ""
        self.samples_extra: List[Any] = []
        self.counts: Dict[str, int] = {}
        self.trusted_base: List[str] = []
        self.checker_cmd = ""
        self.undecided: List[str] = []
        self.fallbacks: List[tuple] = []

    def shape_fallback(self, rule: str, by, note: str = ""):
        """`rule` recognises ONE way of writing a clause (a sufficient structural condition, valid for every input); the rules in `by`
        interpret the same clause's behaviour on enumerated inputs whatever the code looks like.  When `rule` does not recognise the code
        but every rule in `by` was evaluated and holds, the clause is reported as held on the enumerated inputs only (evidence lists it
        under decided_on_scenarios_only) instead of as a violation: an unrecognised spelling is not a defect."""
        self.fallbacks.append((rule, tuple(by), note))

    def _apply_fallbacks(self):
        moved = []
        for rule, by, note in self.fallbacks:
            full = lambda r: r if r.startswith(self.pid + ".") else "%s.%s" % (self.pid, r)
            decided = True
            for b in by:
                obs = [o for o in self.obls if o.rule == full(b)]
                if not obs or any(o.status != "holds" for o in obs) or any(u.startswith(full(b)) or full(b) in u for u in self.undecided):
                    decided = False
            if not decided:
                continue
            for o in self.obls:
                if o.status == "violation" and (o.rule == full(rule) or o.rule.startswith(full(rule) + ":")):
                    o.status = "holds"
                    o.detail = "code shape not recognised by this rule (%s); the clause holds on every enumerated scenario of %s%s" % (o.detail[:160], ", ".join(full(b) for b in by), ("; " + note) if note else "")
                    moved.append(o.key)
        if moved:
            self.info["decided_on_scenarios_only"] = moved

    # ---- recording
    def ok(self, rule: str, fn: str, construct: str, where: str = "", detail: str = "", nontrivial: bool = True):
        self.obls.append(Obligation(rule, fn, norm_construct(construct), where, "holds", detail, nontrivial))
        self.counts[rule] = self.counts.get(rule, 0) + 1

    def fail(self, rule: str, fn: str, construct: str, where: str = "", detail: str = ""):
        self.obls.append(Obligation(rule, fn, norm_construct(construct), where, "violation", detail, True))
        self.counts[rule] = self.counts.get(rule, 0) + 1

    def require(self, cond: bool, rule: str, fn: str, construct: str, where: str = "", detail: str = "", fail_detail: str = ""):
        if cond:
            self.ok(rule, fn, construct, where, detail)
        else:
            self.fail(rule, fn, construct, where, fail_detail or detail)
        return cond

    def incomplete(self, rule: str, reason: str):
        """a rule group could not be evaluated on this tree (the code left the fragment the analysis interprets): nothing is
        claimed for it; the run ends as ANALYSIS-INCOMPLETE (exit 2) unless another rule reports a violation (exit 1)"""
        self.undecided.append("%s: %s" % (rule, reason[:400]))

    def assume(self, text: str):
        if text not in self.assumptions:
            self.assumptions.append(text)

    # ---- finishing
    def finish(self, prog=None) -> int:
        self._apply_fallbacks()
        known = load_known().get(self.pid, [])
        known_keys = {k["key"]: k["what"] for k in known}
        violations = []
        known_hit = []
        for o in self.obls:
            if o.status == "violation":
                if o.key not in known_keys:
                    # a failing lookup x[k] is named KeyError, IndexError or IndexError|KeyError depending on how much is known about the type of x:
                    # the finding is the site, so a listed lookup finding matches whichever of the three names this run inferred
                    for alt in _lookup_aliases(o.key):
                        if alt in known_keys:
                            known_keys[o.key] = known_keys[alt]
                            break
                if o.key in known_keys:
                    o.status = "known-finding"
                    known_hit.append(o)
                else:
                    violations.append(o)
        # floors: fail closed when a rule matched fewer instances than confirmed by hand
        floors = {}
        if os.path.exists(FLOORS_FILE):
            floors = json.load(open(FLOORS_FILE)).get(self.pid, {})
        under = ["%s: %d < %d" % (r, self.counts.get(r, 0), n) for r, n in floors.items() if self.counts.get(r, 0) < n]
        wall = time.time() - self.t0
        printed = set()
        for o in known_hit:
            line = "KNOWN-FINDING: property=%s %s [%s] %s" % (self.pid, known_keys[o.key], o.key, o.where)
            if o.key not in printed:
                print(line)
                printed.add(o.key)
        os.makedirs(os.path.join(EVIDENCE_DIR, "violations"), exist_ok=True)
        # replay files of earlier runs of this property are stale
        for old_ in os.listdir(os.path.join(EVIDENCE_DIR, "violations")):
            if re.fullmatch(r"%s-\d+\.json" % re.escape(self.pid), old_):
                try:
                    os.unlink(os.path.join(EVIDENCE_DIR, "violations", old_))
                except OSError:
                    pass
        for i, o in enumerate(violations):
            path = os.path.join(EVIDENCE_DIR, "violations", "%s-%d.json" % (self.pid, i))
            with open(path, "w") as f:
                json.dump(o.as_dict(), f, indent=1)
            print("  rule %s at %s in %s: %s -- %s" % (o.rule, o.where, o.fn, o.construct, o.detail))
            print("VIOLATION property=%s replay=%s" % (self.pid, path))
        self.write_evidence(wall, violations, known_hit, prog)
        n = len(self.obls)
        print("%s %s: %d obligations, %d hold, %d known findings, %d violations, %.2fs" % (self.pid, self.tier, n, n - len(violations) - len(known_hit), len(known_hit), len(violations), wall))
        if under:
            print("ANALYSIS-INCOMPLETE property=%s instance floor undershot: %s" % (self.pid, "; ".join(under)))
            return 1 if violations else 2
        for u in self.undecided:
            print("ANALYSIS-INCOMPLETE property=%s %s" % (self.pid, u))
        if self.undecided:
            return 1 if violations else 2
        return 1 if violations else 0

    def write_evidence(self, wall, violations, known_hit, prog):
        obls = self.obls
        n = len(obls)
        distinct = len({o.key for o in obls if o.nontrivial})
        samples = [o.as_dict() for o in obls[:6]] + [o.as_dict() for o in obls if o.status != "holds"][:10] + self.samples_extra[:6]
        held = sum(1 for o in obls if o.status == "holds")
        cov: Dict[str, Any] = {
            "evaluations": max(n, 1),
            "distinct_nontrivial": distinct,
            "rule": "one evaluation per rule instance (rule, function, normalised construct) found in /repo's current syntax trees; non-trivial = verdict depends on at least one dataflow/guard/layout fact rather than a bare anchor lookup; distinct by key",
            "samples": samples or [{"note": "no instances"}],
            "obligations": max(n, 1),
            "discharged": held + len(known_hit),
            "explanation": self.explanation,
            "rules": dict(sorted(self.counts.items())),
            "known_findings_matched": [o.key for o in known_hit],
            "violations": [o.as_dict() for o in violations],
            "exhaustive": False,
            "undecided_rule_groups": list(self.undecided),
        }
        if self.level == "proof":
            cov["checker_cmd"] = self.checker_cmd
            cov["trusted_base"] = self.trusted_base
        cov.update(self.info)
        if prog is not None:
            cov["units_analysed"] = prog.stats()
            cov["pruned_arms"] = len(prog.pruned_arms)
            cov["source_digest"] = prog.digest()[:16]
        ev = {
            "property_id": self.pid,
            "tier": self.tier,
            "seed": int(os.environ.get("VERIF_SEED", "0") or 0),
            "level": self.level,
            "coverage": cov,
            "assumptions": self.assumptions,
            "wall_s": round(wall, 3),
            "violations": len(violations),
        }
        os.makedirs(EVIDENCE_DIR, exist_ok=True)
        path = os.path.join(EVIDENCE_DIR, "%s.json" % self.pid)
        tmp = path + ".tmp"
        with open(tmp, "w") as f:
            json.dump(ev, f, indent=1, default=str)
        os.replace(tmp, path)
