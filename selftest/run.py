#!/usr/bin/env python3
"""Self-test of the checkers, both ways.

Each case is a textual edit (old -> new, must match exactly once) of a scratch copy of /repo's analysed
packages.  `expect: fire` cases must make `check <ID>` exit 1 with a VIOLATION line; `expect: silent`
(benign refactorings) must exit 0.  Cases live in selftest/cases/*.json.  Scratch copies are made under
a temp dir outside /repo and /verif and removed afterwards.

The changes recorded under /verif/seeded (made by independent sub-agents, see DESIGN 10.6) are cases too: a change that breaks a
property must make that property's check fire, a behaviour-preserving refactoring must leave all twenty checks silent.

usage: selftest/run.py [--only C05[,C15]] [--case name] [--no-seeded] [-j N] [-v]
"""
import argparse
import concurrent.futures as cf
import glob
import json
import os
import shutil
import subprocess
import sys
import tempfile

HERE = os.path.dirname(os.path.abspath(__file__))
VERIF = os.path.dirname(HERE)
REPO = os.environ.get("BFSA_REPO", "/repo")
PKGS = ["bec2format", "appnotes/register_crypto_plugin"]


def make_copy(dst):
    if os.environ.get("SELFTEST_FROM_HEAD") == "1":
        # copy of the committed tree (for use while something else has the working tree of /repo temporarily modified)
        for p in PKGS:
            os.makedirs(os.path.join(dst, os.path.dirname(p)), exist_ok=True)
        a = subprocess.Popen(["git", "-C", REPO, "archive", "HEAD"] + PKGS, stdout=subprocess.PIPE)
        subprocess.run(["tar", "-x", "-C", dst], stdin=a.stdout, check=True)
        a.wait()
        return
    for p in PKGS:
        shutil.copytree(os.path.join(REPO, p), os.path.join(dst, p), ignore=shutil.ignore_patterns("__pycache__", "test_*.py"))


def run_case(case, verbose=False):
    tmp = tempfile.mkdtemp(prefix="bfsa_selftest_")
    try:
        make_copy(tmp)
        if case.get("patch"):
            p = subprocess.run(["patch", "-p1", "-s", "-i", os.path.join(VERIF, case["patch"])], cwd=tmp, capture_output=True, text=True)
            if p.returncode != 0:
                return case, "BROKEN-CASE", "patch does not apply: %s" % (p.stdout + p.stderr)[:200]
        for ed in case.get("edits", []):
            path = os.path.join(tmp, ed["file"])
            src = open(path, encoding="utf-8").read()
            n = src.count(ed["old"])
            if n != 1:
                return case, "BROKEN-CASE", "pattern matches %d times in %s: %r" % (n, ed["file"], ed["old"][:60])
            src = src.replace(ed["old"], ed["new"])
            open(path, "w", encoding="utf-8").write(src)
            try:
                compile(src, path, "exec")
            except SyntaxError as e:
                return case, "BROKEN-CASE", "mutant does not compile: %s" % e
        results = []
        for pid in case["props"]:
            env = dict(os.environ, BFSA_REPO=tmp, BFSA_EVIDENCE_DIR=os.path.join(tmp, "_evidence"))
            p = subprocess.run([os.path.join(VERIF, "check"), pid, "--repo", tmp, "--tier", case.get("tier", "quick")], capture_output=True, text=True, env=env)
            out = p.stdout + p.stderr
            fired = p.returncode == 1 and "VIOLATION property=%s" % pid in out
            results.append((pid, p.returncode, fired, out))
        exp = case["expect"]
        ok = True
        msgs = []
        for pid, rc, fired, out in results:
            if exp == "fire":
                good = fired
            else:
                good = rc == 0
            if not good:
                ok = False
            tail = [l for l in out.splitlines() if l.startswith(("VIOLATION", "ANALYSIS", "  rule"))][:4]
            msgs.append("%s rc=%d %s" % (pid, rc, " | ".join(tail)[:400]))
        return case, "PASS" if ok else "FAIL", "; ".join(msgs)
    finally:
        shutil.rmtree(tmp, ignore_errors=True)


def main():
    ap = argparse.ArgumentParser()
    ap.add_argument("--only", default="")
    ap.add_argument("--case", default="")
    ap.add_argument("--no-seeded", action="store_true")
    ap.add_argument("-j", type=int, default=min(16, os.cpu_count() or 4))
    ap.add_argument("-v", action="store_true")
    a = ap.parse_args()
    cases = []
    for f in sorted(glob.glob(os.path.join(HERE, "cases", "*.json"))):
        for c in json.load(open(f)):
            c.setdefault("source", os.path.basename(f))
            cases.append(c)
    if not a.no_seeded:
        for mf in sorted(glob.glob(os.path.join(VERIF, "seeded", "*", "meta.json"))):
            m = json.load(open(mf))
            name = os.path.basename(os.path.dirname(mf))
            benign = m.get("kind") == "behaviour-preserving"
            cases.append({"name": "seeded:" + name, "source": "seeded", "patch": os.path.join("seeded", name, "patch.diff"), "expect": "silent" if benign else "fire",
                          "props": ["C%02d" % i for i in range(1, 21)] if benign else [m["property"]]})
    only = set(x.upper() for x in a.only.split(",") if x)
    if only:
        cases = [dict(c, props=[p for p in c["props"] if p in only]) for c in cases if set(c["props"]) & only]
    if a.case:
        cases = [c for c in cases if a.case in c["name"]]
    bad = 0
    with cf.ThreadPoolExecutor(max_workers=a.j) as pool:
        for case, status, msg in pool.map(lambda c: run_case(c, a.v), cases):
            if status != "PASS" or a.v:
                print("%-11s %-6s %-45s %s" % (status, case["expect"], case["name"], msg))
            if status != "PASS":
                bad += 1
    print("selftest: %d cases, %d not passing" % (len(cases), bad))
    return 1 if bad else 0


if __name__ == "__main__":
    sys.exit(main())
