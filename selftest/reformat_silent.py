#!/usr/bin/env python3
"""Silent-on-reformat test: every package file is replaced by ast.unparse(ast.parse(src)) (all formatting, comments and
line positions change, behaviour does not) in a scratch copy; every check must still exit 0."""
import ast, os, shutil, subprocess, sys, tempfile
HERE = os.path.dirname(os.path.abspath(__file__)); VERIF = os.path.dirname(HERE)
sys.path.insert(0, HERE)
from run import make_copy
tmp = tempfile.mkdtemp(prefix="bfsa_reformat_")
bad = 0
try:
    make_copy(tmp)
    n = 0
    for dp, dn, fn in os.walk(tmp):
        for f in fn:
            if f.endswith(".py"):
                p = os.path.join(dp, f)
                src = open(p, encoding="utf-8").read()
                open(p, "w", encoding="utf-8").write(ast.unparse(ast.parse(src)) + "\n")
                n += 1
    print("reformatted", n, "files")
    for i in range(1, 21):
        pid = "C%02d" % i
        env = dict(os.environ, BFSA_EVIDENCE_DIR=os.path.join(tmp, "_evidence"))
        r = subprocess.run([os.path.join(VERIF, "check"), pid, "--repo", tmp], capture_output=True, text=True, env=env)
        tail = [l for l in (r.stdout + r.stderr).splitlines() if l.startswith(("VIOLATION", "ANALYSIS", "  rule"))][:3]
        print(pid, "rc=%d" % r.returncode, " | ".join(tail)[:300])
        bad += r.returncode != 0
finally:
    shutil.rmtree(tmp, ignore_errors=True)
sys.exit(1 if bad else 0)
