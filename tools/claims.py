# executed by mkmanifest.py: one claim(...) per property whose check is finished and self-tested
claim(
    "C15", "proof",
    "abstract interpretation of the CRC loop body in a GF(2)-affine bit-vector domain; matrix equality with the bit-serial definition; induction over the loop",
    "Full property. The loop transfer function of crc8404B, extracted from the syntax tree, equals the 8-fold bit-serial CRC step for reflected polynomial 0x8408 as a 16x24 matrix over GF(2); the register stays within 16 bits; initial value, iteration order and absence of a final XOR are checked on the loop record. Induction over the loop covers every byte string and every 16-bit start value.",
    "Trusted: python ast, the abstract interpreter (bfsa.symexec), the GF(2) domain, the 12-line reference step written from the definition. Assumes byte inputs 0..255 and a 16-bit start value.",
    "DESIGN.md section 4, C15",
)
claim(
    "C05", "other",
    "reader consumption grammar extracted by structural abstract interpretation and matched against the documented layout table; acceptance guards identified by data provenance and relational normal form; structural dominance over acceptance",
    "Decides the structural content of the statement: the reads of read_file/from_binary/dir_from_binary form exactly the documented grammar (widths, big-endian, nesting, sentinel loop, region ends); each acceptance condition (signature, stored>=declared, unique tags, every region fully consumed, entry MAC over the entry prefix with 1-based index IV, address == position before each payload read, payload MAC over the stored bytes, nothing after the last payload, exact-length reads) exists as a raising guard in the right normal form that dominates acceptance and is skipped only for check_cmac=False; the returned object's fields flow from the slots read. It does not enumerate binaries or run the parser.",
    "Trusted: python ast, bfsa abstract interpreter and guard normal forms, spec/layout.json (transcribed from the property text). cmac is taken as the documented MAC (C03/C16 clauses). Dominance is structural (if/loop/try nesting), sound for this goto-free code.",
    "DESIGN.md section 4, C05",
)
