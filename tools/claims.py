# executed by mkmanifest.py: one claim(...) per property whose check is finished and self-tested
claim(
    "C15", "proof",
    "abstract interpretation of the CRC loop body in a GF(2)-affine bit-vector domain; matrix equality with the bit-serial definition; induction over the loop",
    "Full property. The loop transfer function of crc8404B, extracted from the syntax tree, equals the 8-fold bit-serial CRC step for reflected polynomial 0x8408 as a 16x24 matrix over GF(2); the register stays within 16 bits; initial value, iteration order and absence of a final XOR are checked on the loop record. Induction over the loop covers every byte string and every 16-bit start value.",
    "Trusted: python ast, the abstract interpreter (bfsa.symexec), the GF(2) domain, the 12-line reference step written from the definition. Assumes byte inputs 0..255 and a 16-bit start value.",
    "DESIGN.md section 4, C15",
)
