# executed by mkmanifest.py: one claim(...) per property whose check is finished and self-tested
claim(
    "C15", "proof",
    "abstract interpretation of the CRC loop body in a GF(2)-affine bit-vector domain; matrix equality with the bit-serial definition; induction over the loop",
    "Full property. The loop transfer function of crc8404B, extracted from the syntax tree, equals the 8-fold bit-serial CRC step for reflected polynomial 0x8408 as a 16x24 matrix over GF(2); the register stays within 16 bits; initial value, iteration order and absence of a final XOR are checked on the loop record. Induction over the loop covers every byte string and every 16-bit start value.",
    "Trusted: python ast, the abstract interpreter (bfsa.symexec), the GF(2) domain, the 12-line reference step written from the definition. Assumes byte inputs 0..255 and a 16-bit start value.",
    "DESIGN.md section 4, C15",
)
claim(
    "C05", "other",
    "reader consumption grammar extracted by structural abstract interpretation and matched against the documented layout table; acceptance guards identified by data provenance and relational normal form; structural dominance over acceptance",
    "Decides the structural content of the statement: the reads of read_file/from_binary/dir_from_binary form exactly the documented grammar (widths, big-endian, nesting, sentinel loop, region ends); each acceptance condition (signature, stored>=declared, unique tags, every region fully consumed, entry MAC over the entry prefix with 1-based index IV, address == position before each payload read, payload MAC over the stored bytes, nothing after the last payload, exact-length reads) exists as a raising guard in the right normal form that dominates acceptance and is skipped only for check_cmac=False; the returned object's fields flow from the slots read. It does not enumerate binaries or run the parser.",
    "Trusted: python ast, bfsa abstract interpreter and guard normal forms, spec/layout.json (transcribed from the property text). cmac is taken as the documented MAC (C03/C16 clauses). Dominance is structural (if/loop/try nesting), sound for this goto-free code.",
    "DESIGN.md section 4, C05",
)
claim(
    "C03", "other",
    "byte-layout abstract interpretation of the writer and consumption-grammar extraction of the reader, both matched against an independently transcribed layout table; length/offset terms compared as symbolic linear forms; MAC coverage by segment equality",
    "Decides the structural content: the value returned by to_binary (both passes inlined) has exactly the documented segment sequence (widths, big-endian, nesting, sentinel, payload area, nothing after); every length prefix is len() of exactly the region that follows; addresses start at offset + size of size-field+directory (the size pass has the same symbolic length as the real pass) and advance by the stored length; entry MAC covers the entry prefix with IV = 1-based index (16-byte big-endian), payload MAC covers the stored bytes; MAC = last 16 bytes of zero-padded CBC through the registered adapter; BEC2 header framing and body offset; text envelope (comment lines, blank line, 40-byte upper-case hex lines covering all data). The reader grammar is matched to the same table, so symmetric writer/reader errors are caught. Byte equality with an independent AES implementation is not decided.",
    "Trusted: python ast, bfsa, spec/layout.json (transcribed from the property statement). AES block function correctness is C16's clause.",
    "DESIGN.md section 4, C03",
)
claim(
    "C01", "other",
    "writer layout and reader grammar extracted by abstract interpretation and matched to one layout table; slot-to-attribute provenance on both sides; regex character-class and format-string analysis of the text envelope; type-consistency rule for tag-value comparisons",
    "Decides that the reader is the structural inverse of the writer: both sides have the same layout; each slot is written from the attribute (description, blob via get_raw_data, actual_len) that the reader's value for that slot is stored into; MAC coverage/IV/key agree; comment lines '{}: {}' are undone by split(':',1)+strip, the block ends at the empty line, hex2bin removes exactly the separators the writer emits and no hex digit, CRLF translation is undone by universal-newline reading; the ENC tag is compared with the encoding the writer emits; reads are exact. Equality of arbitrary payload values after an executed round trip is not decided.",
    "Trusted: python ast, bfsa, spec/layout.json. Comment keys/values are as restricted in the property's quantifier.",
    "DESIGN.md section 4, C01",
)
claim(
    "C08", "other",
    "byte-layout interpretation of the frame builder; interval x congruence abstract domain for padding and frame length; reader-grammar extraction and guard normal forms for the parser; provenance rules for key slot and key derivation",
    "Decides for every payload length (symbolically): frame = 'B', U8(len+2), P zero bytes, payload, U16be CRC with P in [1,16] and total length = 0 mod 16; the parser reads marker, length, seeks to len(ciphertext)-L, reads L-2 payload bytes and the CRC, rejects a wrong marker or CRC on every accepting path and returns exactly the payload; the customer key overwrites plaintext[pos:pos+10] before wrapping and is compared then blanked on unwrapping; the security-code key is SHA-256(code)[:16]; the registered adapter encrypts zero-padded CBC from a fresh mode object and its decrypt is length preserving. CRC values themselves are C15; AES is C16.",
    "Trusted: python ast, bfsa (layout, length domain, guards). Assumes the cipher adapter rules of C16 for the block function.",
    "DESIGN.md section 4, C08",
)
claim(
    "C07", "other",
    "data-provenance and effect analysis on the abstract-interpretation trace: single key source, must-flow into encrypt, relational normal form of the key-disagreement guard, identity flow of unknown blocks, no-caching effect rules for RNG and ephemeral keys",
    "Decides: every auth block is packed with self.session_key (assigned only in the constructor) and the body is serialised under the same attribute; each pack wraps the key it is given; on reading, a raising guard `unwrapped key != key seen so far` (only conditioned on keys being present) covers every pair of blocks and the carried key is updated from the unwrapped one; blocks that cannot be opened are kept as (tag read, bytes read) and re-emitted unchanged; without a given key random_bytes(16) is evaluated per instance inside the constructor; the registered RNG is os.urandom(n) without caching; EccEncryptor.encrypt generates an ephemeral key on every path, uses it for both the emitted point and the DH input and never stores it. Statistical freshness is not decided.",
    "Trusted: python ast, bfsa. os.urandom / SigningKey.generate randomness is assumed.",
    "DESIGN.md section 4, C07",
)
claim(
    "C02", "other",
    "byte-layout / reader-grammar correspondence of the BEC2 header and of each auth-block kind's pack and unpack; provenance of selector, version and security code; length-preservation rule for the registered cipher's decrypt; type-consistency rule for the ENC comparison",
    "Decides that header writer and reader are structural inverses ('BEC2\\0', TLV records in insertion order, 00 00, body offset = header length; reader loops until tag = len = 0), that InitCustKey / Update / InitEcc pack and unpack are inverse layouts whose selector, version and security code reach the attributes pack reads, that the ECIES block is 04 || point(64) || AES(key) on both sides with the same KDF, that no encryptor class satisfies the required class of two block kinds (class hierarchy), that the unwrapped key is the one the body is verified and decrypted with, that the cipher adapter's decrypt returns exactly the padded plaintext (no stripping: the static fact behind keys or CRCs ending in 0x00) and that the encrypted configuration component is decrypted on read. Executed round-trip value equality is not decided.",
    "Trusted: python ast, bfsa. Session keys are KEY_SIZE = 16 bytes. BF3 body clauses under C01/C03/C05.",
    "DESIGN.md section 4, C02",
)
claim(
    "C04", "other",
    "reader-grammar extraction bound to the documented layout; per-field coverage classification (MAC-covered / compared / region delimiter with enforced end); guard normal forms with structural dominance; exact-read rule on BytesReader",
    "Decides that the integrity mechanism is complete: no field of the container is read and dropped; every field lies inside a verified MAC's coverage, is compared by a raising guard, or delimits a region whose end is enforced; both MAC guards have the documented coverage/IV/key, dominate acceptance and are skipped only for check_cmac=False; the MAC they compare is the last block of one CBC chain over the whole zero-padded input (registered adapter); every region and the file must be fully consumed; BytesReader.read and read_int reject short and negative-size reads (necessary because the MACs are over zero-padded data); BF3 and BEC2 signature guards; the body of a BEC2 file is verified with the unwrapped key. The enumeration of all byte flips / truncations is not performed and MAC unforgeability is assumed.",
    "Trusted: python ast, bfsa, spec/layout.json. AES-CBC-MAC unforgeability under an unknown key is assumed; the BEC2 header is protected per block (CRC inside the AES container / ECIES), not by a MAC.",
    "DESIGN.md section 4, C04",
)
claim(
    "C06", "other",
    "path/provenance rule on get_raw_data; constant-argument audit of set_config; type-consistency rule (shape inference) for the ENC comparison; effect/exception rules for missing cipher; source-sink taint analysis over the term DAG",
    "Decides: on the encryption arm get_raw_data returns create_AES128(session_key).encrypt(pad(self.blob)) (default zero IV) and the blob reaches the stored bytes only through the cipher; pad and the adapter append (-len) mod 16 zero bytes; set_config always builds its component with encrypt_by_session_key=True and tags TYPE=03 ENC=02 FMT=03 REBOOT=01; the reader selects the decrypting constructor by description[ENC] == b'\x02' compared as bytes, builds every other component only where the tag is known to differ or be absent, and decrypts with the session key keeping the flag; base AES128 methods only raise, with no cipher registered the encryption arm has no normal exit, and no handler on the write path can complete normally; session key, security code, customer key and wrapped plaintext reach returned bytes only through encrypt / mac / sha256 / key positions; derived comments are identifier strings or constants. Correctness of the ciphertext bytes is C16's clause.",
    "Trusted: python ast, bfsa. MAC / hash outputs are assumed not to reveal inputs.",
    "DESIGN.md section 4, C06",
)
claim(
    "C16", "other",
    "exhaustive constant audit of the lookup tables against GF(2^8) definitions; abstract interpretation of the round functions and key schedule in a byte-lane XOR-normal-form (Herbrand) domain with term equality against FIPS-197; provenance/effect rules for modes and adapter",
    "Decides, for all keys and blocks symbolically: the 14 lookup tables (3584 entries), rcon and the round counts equal their GF(2^8) definitions; AES.encrypt and AES.decrypt (10/12/14 rounds) produce, byte for byte as terms over block and round-key bytes, the FIPS-197 cipher and equivalent inverse cipher; the key schedule for 128/192/256-bit keys equals FIPS-197 5.2 and the decryption keys are its mirrored, InvMixColumn'ed form; tables are never written; CBC and ECB satisfy their chaining equations, CBC starts from the IV or 16 zero bytes; the feeder finaliser with padding disabled passes the block through; the registered adapter builds a fresh CBC mode from (key, iv) on every call, keeps no state, zero-pads by (-len) mod 16, MAC = last 16 ciphertext bytes, decrypt returns exactly the padded plaintext. Not decided: that decryption inverts encryption as a value identity beyond the two FIPS equalities, CFB/OFB/CTR/Counter, and BlockFeeder behaviour for arbitrary input splits.",
    "Trusted: python ast, bfsa abstract interpreter with concrete control, the lane domain and the FIPS-197 reference written in it (rules/c16.py, bfsa/domains/lanes.py).",
    "DESIGN.md section 4, C16",
)
claim(
    "C10", "other",
    "byte-layout interpretation of the TLV part constructors and the set_config framing; relational normal forms of the filter predicates and the split test; emptiness abstract interpretation (three-valued, disjunctive loop fixpoint) of the block list",
    "Decides: conf_dict_to_list returns sorted(deletions) + sorted(assignments) with exactly complementary predicates over ((key, value), content) items; the three parts are 02 KK KK, 01 KK KK VV FF | FF and 01 KK KK VV LL content | FF (key big-endian, LL = len(content)) under the documented selection conditions; a block is closed exactly when current block + pending postface + preface + data + own postface would exceed MAX_TLVBLOCK_SIZE = 117 (strictly); by an emptiness invariant no closed block is empty (including an oversize entry in first position) and an empty last block is removed; set_config frames {U8 len, block}* over the TLV blocks followed by the caller's blocks, closes with one 00, declares len(blob) and tags the component TYPE=03 ENC=02 FMT=03 REBOOT=01, encrypted. Not decided: that a decoder recovers exactly the dictionary's operations for arbitrary dictionaries, and the per-block size bound beyond the split test.",
    "Trusted: python ast, bfsa (layout, guard normal forms, EMPT interpreter).",
    "DESIGN.md section 4, C10",
)
claim(
    "C11", "other",
    "path rule with structural dominance on set_config; exception-provenance rule for the swallowing handler (implicit KeyError sources typed by shape inference); complementary-path rule for pop-or-set; who-may-write (effect) rule for comments and auth_blocks",
    "Decides the per-operation facts that histories compose from: set_config deletes the component found by the TYPE=03 search and appends the new component as the last mutation of the list, unconditionally; only the explicit not-found KeyError can reach the swallowing handler (no implicit KeyError source lies inside the try body); each of Configuration / DeviceSettings / RequiresBusAddress is stored on one path and removed on the complementary path with values derived from the current configuration argument only, and no other comment is written; auth_blocks is written only as {block.tag: block}; derivation adds exactly one initial block selected by cust_key_support and the update block (config[(0x0202,0x82)], identifier version) exactly when both exist. Arbitrary operation sequences are not enumerated.",
    "Trusted: python ast, bfsa.",
    "DESIGN.md section 4, C11",
)
claim(
    "C13", "other",
    "must-use path rule over all branch assignments of the unpack loop; byte-layout interpretation of the three payload conversions; guard normal forms with dominance for the rejections; constant-table agreement and pinned domain table; provenance grouping of instruction stores",
    "Decides: the text line parser decodes a ':' line into U16be index, U8 tag type, U8 n, tag[n] (unsigned) and records it as Bf2BinLine(type, index, tag, line) unless the type is FF / FE; each data line is parsed as U8 n, U16be offset, payload[n-2] and on every path through the unpack loop its payload is appended to the run being assembled (no line is dropped), addresses are (tag type - first tag type) * 0x10000 + offset, runs are stored at every gap and at the end; BF2-compatible sections are the unfiltered concatenation of all raw lines in order, blobs are blocks[0] guarded by `len(blocks) != 1 or 0 not in blocks -> raise`, memory images are {U32be address, U32be length, data} over the sorted extents; unmapped and unknown tag types and firmware without the BF3-update marker (when enforced, the default) are rejected before use; known-range bases equal the mapped tag types, range membership is inclusive, tag-type / interface / special-case / hardware-id tables equal the pinned domain table and the reverse hardware-id map is a bijection; REBOOT, CRC, SELECT, CHECK_FWVER/Firmware, SELECT_IF write exactly tags C5, C7, C9(+C4), C8, C6 with the documented encodings; the filter formatter checks its input's shape before indexing it. Byte preservation on executed images and the boolean equivalence of the rendered filter expression are not decided.",
    "Trusted: python ast, bfsa, spec/bf2_tagtypes.json (domain table pinned at the analysed commit).",
    "DESIGN.md section 4, C13",
)
claim(
    "C12", "other",
    "structural comparison of str.format templates with the parser's regular expressions (both parsed to item sequences); nullability (shape) analysis of constructor-mapped fields before numeric format specs; anchoring and overlap analysis of the ordered regex alternatives; exception-conversion rule for naming lookups",
    "Decides: both text forms are printed and parsed with the same widths, zero padding, separators and field order, every regex group feeds the attribute printed at its position (device settings print the literal 0000 exactly when device == 0), the optional ' ' + name suffix corresponds to the optional group; both patterns must match the whole text; customer / project / device (None when the unknown code 9999) are guarded or mapped back before a numeric format spec; text matching neither form raises ConfigIdFormatError; missing naming values are converted to the documented Missing*NameError and fields come from the documented 0x0620 keys; equality compares all five fields. The overlap of the two text forms (a name-only identifier whose name looks numeric) is reported as a known finding. Exhaustive numeric ranges are not enumerated.",
    "Trusted: python ast, bfsa, python's own regex parser (re._parser) and string.Formatter for parsing the literal patterns/templates.",
    "DESIGN.md section 4, C12",
)
claim(
    "C14", "other",
    "interprocedural exception-escape analysis (may-raise sets with witnesses) over the structural abstract interpretation: fixed catalogue of implicit raisers typed by shape inference, discharge by path facts and audited table invariants, handler filtering by class hierarchy; typed rule for the BF2 tagged union; loop-progress rule; global-write effect rule",
    "Decides for the five parser entry points (BF3 reader, BEC2 reader with every decryptor set by class-hierarchy analysis, BF2 importer, identifier parser, filter formatter): every exception class that can leave them -- explicit raises and implicit raisers (subscripts, unpacking, int(), unhexlify, to_bytes, decode, pop, division) minus what enclosing handlers catch, implicit ones discharged by dominating length/truthiness/membership guards, successful earlier lookups, certainly-present keys or audited constant tables -- is a FormatError, a ValueError or (path I/O) an OSError; sites where another class escapes are reported by raising construct (the ones present on the pinned tree are known findings with failing inputs). Consumers of the BF2 line parser's tagged union that need one payload type are reported (TypeError/AttributeError sources); an optional lookup (d.get(k), d.pop(k, None)) on parsed input must be tested before a use that needs a value; every cmac() call a parser reaches gets provably non-empty data (else the registered cipher's bare Exception, a known finding for one site); every reachable while-loop consumes input from a finite source or raises at its end; no reachable function writes library-global state. Not modelled: TypeError/AttributeError outside that union, MemoryError, RecursionError.",
    "Trusted: python ast, bfsa (abstract interpreter, EXC catalogue, facts), spec/discharge.json (per-site reasons), summaries at the boundary to the vendored ECC library (decoder escapes as established under C19; key agreement on validated keys assumed total) and of the AES block functions (licensed by the concrete-control interpretation of C16).",
    "DESIGN.md section 4, C14",
)
claim(
    "C20", "other",
    "effect analysis (who may write / in-place mutation / aliasing) of the shared attributes of both point classes; publish-last and snapshot-read syntax-tree rules; lock-discipline rules (pairing, guarded-by, first-in/last-out conditions, wiring) on the abstract-interpretation trace of the lock classes",
    "Decides structural necessary conditions of the two mechanisms: outside the constructors __precompute and __coords of PointJacobi and PointEdwards are only replaced by one plain assignment of a freshly built value, never mutated in place directly or through an alias; the lazily built table is published by the last statement that touches it; each method takes the coordinate tuple as one snapshot (reloads only after scale(), single components only in zero tests); the light switch changes its counter by exactly one strictly between mutex acquire and release on all paths and takes / releases the outer lock iff the counter is 1 after increment / 0 after decrement; RWLock is built from distinct switches and locks and each of its four operations performs the documented lock operations unconditionally in the documented order; no function of the ECC package keeps state in a module-level variable that is read back (memo, cache of validated points) or mutates a module-level container. 'Under every interleaving' and deadlock freedom are not decided: that requires state-space exploration, which is not static analysis; a naive lock-order graph would report a counter-infeasible cycle.",
    "Trusted: python ast, bfsa. CPython attribute assignment / tuple load atomicity and threading.Lock are assumed.",
    "DESIGN.md section 4, C20",
)
claim(
    "C09", "other",
    "byte-layout and provenance rules for the ECIES block; constant audit of the published keys and the 27-byte header with the checker's own DER reader and P-256 arithmetic; must-pass-through rule along the resolved call chain to the on-curve guard; who-may-call rule for validation switches",
    "Decides: the block is selector || 04 || raw public point of a per-call ephemeral key || AES-CBC(session key) under SHA-256(ECDH secret)[:16] with default IV, and the decryptor parses exactly that with the roles swapped and rejects a wrong marker; the four DEFAULT_PUBLIC_KEYS are well-formed P-256 SubjectPublicKeyInfo values whose points lie on the curve (checker's own arithmetic), equal to the pinned published values, keyed by KEYSEL_* = 0..3, and chosen by the block's selector when no recipient is given; raw<->DER conversion uses the exact 27-byte P-256 prefix in both directions; from the plug-in's loader every hop (from_der -> from_string -> from_public_point -> Public_key.__init__) hands point validation on with defaults True, the range and on-curve guards dominate acceptance, rejection is converted to MalformedPointError, contains_point is the curve equation, and the only call that binds validation to False is SigningKey.from_secret_exponent. That OpenSSL recovers the same key is not decided.",
    "Trusted: python ast, bfsa, bfsa.constaudit (DER reader, EC arithmetic, P-256 parameters written from FIPS 186-4), spec/published_keys.json (pinned values).",
    "DESIGN.md section 4, C09",
)
claim(
    "C19", "other",
    "exception-escape analysis of the ECC library's decoders with Fourier-Motzkin discharge of index and assertion obligations; sibling rule over the DER remove_* primitives; remainder-provenance rule for trailing data; constant audit of OIDs and the 27-byte header; encoder/decoder prefix agreement",
    "Decides: for the DER primitives, VerifyingKey / SigningKey .from_der / .from_pem / .from_string, Curve.from_der and PointJacobi.from_bytes every escaping exception class is defined in the ecdsa package or is a ValueError (explicit raises, asserts and implicit raisers; index and assertion obligations discharged by linear entailment from length guards, slice-length definitions and floor-division axioms); each remove_* rejects empty input before indexing and compares the announced length with the bytes available; the remainder after the outer structure of a decoder's input is checked empty, a raw-length point inside DER is rejected, other remainders are parsed further, checked, or belong to a documented optional ASN.1 tail; id-ecPublicKey, the prime-field OID and the 19 curve OIDs equal the registered pinned values and are unique, the 27-byte P-256 header is the exact SubjectPublicKeyInfo prefix; every DER primitive accepts exactly its identifier octet(s) (interpreted on all 256 values); the raw 64-byte conversions that run are those of the registered key class; compressed / hybrid / uncompressed prefixes written by the encoders are the ones the decoders accept with the same parity convention; in an explicit-parameters encoding the field elements a and b are written in the length of the field prime (not of the group order). OpenSSL byte compatibility and executed round trips are not decided.",
    "Trusted: python ast, bfsa (EXC, FACTS/Fourier-Motzkin), spec/oids.json, spec/discharge.json. numbertheory and point arithmetic summarised as raising only numbertheory.Error; arithmetic treated as total (p = 0 in explicit parameters is a recorded blind spot); Edwards paths excluded.",
    "DESIGN.md section 4, C19",
)
claim(
    "C18", "other",
    "guard normal forms with structural dominance for range / zero / length / trailing-junk checks; exception-escape analysis of the signature decoders and conversion rule for verify_digest; data-flow rule for the verification equation and canonisation",
    "Decides only the structural clauses: in Public_key.verifies the guards r < 1, r > n-1, s < 1, s > n-1 return False before s is inverted, a sum point equal to INFINITY is refused before its x coordinate is taken, the DER primitives the decoder uses accept exactly the identifier octets 30 / 02 (all 256 values interpreted) and the verdict is x(u1*G + u2*Q) mod n == r with u1 = e*s^-1, u2 = r*s^-1 (as data flow); Private_key.sign never returns r = 0 or s = 0, sign_digest_deterministic retries only on RSZeroError with retry_gen incremented and passed to generate_k; sigdecode_string requires exactly 2*l bytes split in the middle, sigdecode_strings exactly two strings of l bytes, sigdecode_der exactly SEQUENCE{r, s} with nothing after the sequence or after s; the decoders can only raise MalformedSignature / UnexpectedDER, verify_digest converts both to BadSignatureError and raises it on a False verdict (its only normal return is True); canonical encoders replace s > order/2 by order - s; the point-arithmetic rules of C17 that the verdict is computed with (addition dispatcher, multiply-add combinations and digit walk) are re-run here; the RFC 6979 nonce derivation is compared step by step with the RFC's script, bits2int / bits2octets with their definitions on a grid of values. Not decided (no sound static argument in reach): that library signatures verify, that any single-bit change is rejected, OpenSSL interoperability, RFC 6979 test vectors.",
    "Trusted: python ast, bfsa. The numeric content of ECDSA is outside this check (group law clauses under C17); group orders >= 2.",
    "DESIGN.md section 4, C18",
)
claim(
    "C17", "other",
    "constant audit of the 17 curve parameter sets with the checker's own bignum arithmetic; interval analysis in units of p (canonicity domain) over the Jacobian formula functions; sibling rules over the addition variants and dispatcher; guard normal forms for validation and ECDH; (thorough) polynomial identity checking of the formulas against the affine group law",
    "Decides: for all 17 short-Weierstrass curves p and n are prime, the curve is non-singular, G lies on it, n*G is infinity and the cofactor satisfies Hasse's bound (literals folded from ecdsa.py, checker's own arithmetic); PointJacobi.__eq__ decides congruence modulo p in every comparison it makes (interval domain); for each curve x^3 + ax + b has no root mod p, so the encoding of infinity as Y = 0 conflates nothing (violated by SECP112r2, cofactor 4: known finding); every zero test in the Jacobian formula functions and the dispatcher is applied to a value that lies strictly inside (-p, p) given X, Z in [0, p) and Y in (-p, p), every returned coordinate is reduced, only Y is ever negated -- so points are recognised as equal / infinite regardless of their integer representation; all four addition variants divert equal operands to doubling before the generic formula, the dispatcher handles both infinity operands and every Z shape, public operations map Y3 = 0 or Z3 = 0 to INFINITY; scalar multiplication recodes the scalar as k = 2k' + d and walks the NAF digits from the most significant end, the combined multiplication mul_add adds the combination its two digits call for and (interpreted on concrete control for digit lists of different lengths) pairs the two lists from their most significant ends with the shorter one zero-extended there; the affine Point class handles infinity, inverse and equal operands before the chord formula, which is checked on a small curve; ECDH refuses missing keys, differing curves and an infinite result, keys on another curve are refused before being stored, a failing square root becomes MalformedPointError; the public-key validation chain of C09. Thorough tier: the six formula functions equal the chord/tangent law as identities of rational functions (reductions dropped). Not decided: agreement with OpenSSL, executed group enumeration, equality of ECDH secrets as values.",
    "Trusted: python ast, bfsa, bfsa.constaudit; sympy (tooling venv) as polynomial normaliser in the thorough tier. Callers pass canonical integers to the low-level point constructors.",
    "DESIGN.md section 4, C17",
)


# ---- additions after the first build: concrete-control scenarios and rules added from the seeded-change campaign
def _extend(pid, tech, text):
    CLAIMS[pid]["technique"] += "; " + tech
    CLAIMS[pid]["text"] += " " + text


_SCEN = ("abstract interpretation with concrete control of synthetic call sequences (fixed lengths, symbolic contents; AES block function, CRC-16 and EC operations as "
         "uninterpreted functions with the axioms licensed by C16 / C15 / C17) and term-identity comparison after XOR canonicalisation")
_extend("C16", _SCEN + " against SP 800-38A written in the same term algebra; syntax-tree scan for state shared between cipher objects",
        "Additionally, for enumerated call sequences / chunkings with symbolic contents, every output byte of the ECB, CBC, CFB (segment 1, 8, 16), OFB and CTR mode objects and of the "
        "Encrypter / Decrypter feeders (PKCS#7 and no padding) equals the SP 800-38A term for the concatenated input; PKCS#7 append for lengths 0..48; no mutable default argument, "
        "class-level container or global statement shares state between cipher objects.")
_extend("C08", _SCEN,
        "Additionally, for EVERY payload length 0..253 with symbolic payload and key, the ciphertext produced through the registered adapter and the pyaes feeder is CBC(zero IV) of exactly "
        "'B' | len+2 | 1..16 zeros | payload | CRC-16 (recovered from the ciphertext terms) and unwrapping returns exactly the payload; 254 bytes are refused; customer-key slot insert / blank "
        "for enumerated (length, position) pairs; SHA-256[:16] keyed variant.")
_extend("C06", _SCEN,
        "Additionally, for enumerated content lengths (all residues mod 16) the stored bytes of an encrypted component are CBC_sessionkey(zero IV) of the zero-padded content and reading back "
        "returns the content followed by zeros with declared length and flag kept.")
_extend("C01", _SCEN,
        "Additionally, for enumerated file shapes (0..3 components, mixed encryption, tag sets incl. empty values, several offsets) Bf3File.from_binary(Bf3File.to_binary(f)) with MAC checks "
        "returns the same components (tags, values, content, declared length, flag) for symbolic contents and session key.")
_extend("C03", _SCEN + " against an independent writer of the documented layout in the same term algebra",
        "Additionally, for the same enumerated file shapes the written bytes are identical, term by term, to an independently written reference of the documented layout including both CBC-MACs.")
_extend("C02", _SCEN,
        "Additionally, for 31 enumerated BEC2 scenarios (block subsets and orders, key selectors 0..3, customer key present / absent, decryptor subsets, symbolic and boundary versions) "
        "reading back the written file returns the same blocks, the session key as the identical 16 symbolic bytes, and the same content.")
_extend("C07", _SCEN,
        "Additionally: a file without explicit key draws exactly one random key; each block opened on its own yields that key; each write of an ECC block uses a new ephemeral key; the BF3 part is keyed with the file's key.")
_extend("C09", _SCEN + "; structural rules for the DH secret encoding (fixed-width number_to_string evaluated for 7 moduli)",
        "Additionally: the ECC block bytes of the scenarios are selector | 04 | ephemeral point | CBC_k(session key) with k = sha256(ECDH x)[:16]; the DH secret is generate_sharedsecret_bytes of "
        "(own key, validated peer key), the x coordinate encoded with the fixed width of the field prime.")
_extend("C13", "relational normal form of the gap test between consecutive data lines",
        "Additionally: a new run starts exactly when a line's absolute address differs from the end of the previous line.")
_extend("C17", "field-wise equality rule with term substitution self->other and hash/equality agreement",
        "Additionally: CurveFp / CurveEdTw / Point / Curve equality compares every defining parameter of self with the same parameter of other and agrees with __hash__.")
_extend("C18", "term-shape rule for the FIPS 186-4 leftmost-bits truncation",
        "Additionally: the hash integer is string_to_number(digest[:baselen]) >> max(0, 8*len - bit_length(order)); over-long digests are refused without truncation.")

_extend("C04", _SCEN + "; damaged-image scenarios decided under the property's own MAC assumption",
        "Additionally, an authentic three-component image is damaged in every enumerated way (every proper prefix, appended bytes, every single byte position replaced, another session key, seven crafted single-defect images with consistent MACs) "
        "and read by the real reader: every run ends in a definite format error or returns exactly the original content.")
_extend("C05", _SCEN + "; crafted single-defect images",
        "Additionally, images that violate exactly one acceptance rule (missing sentinel, repeated tag, declared > stored, non-absolute or non-contiguous addresses, entry MAC made with another index, wrong directory size) with all MACs recomputed are each rejected, and the undamaged image is accepted with its content.")
_extend("C10", _SCEN + " with an independent decoder of the TLV block format",
        "Additionally, for 26 enumerated dictionaries (sizes around the 117-byte limit, oversize entries, deletions; thorough: 95 more) with symbolic contents the blocks are non-empty, bounded and decode to exactly the dictionary's operations in order.")
_extend("C11", "abstract interpretation with concrete control of derive_auth_blocks_from_config over enumerated key subsets with symbolic security code / version / naming values",
        "Additionally, for 165 (configuration, initial-block kind) pairs derived twice: exactly the requested initial block plus an update block with the security code and the project-settings (else device-settings) identifier version exactly when both exist.")
_extend("C12", "abstract interpretation with concrete control of create_from_prj_settings / create_from_dev_settings over every subset of the naming values (symbolic values, enumerated widths), results compared as terms",
        "Additionally, for every subset of the 0x0620 naming values (several byte widths, the unknown customer code) the identifier denotes exactly the given values, falls back to the name-only form, or raises the documented error.")
_extend("C13", _SCEN.replace("AES block function, CRC-16 and EC operations", "the BF2 text parser") + " over enumerated record sequences",
        "Additionally, for 9 enumerated record sequences with symbolic line contents the importer's state machine yields exactly the expected components (ignored sections, page crossing, gaps / overlaps / missing marker rejected).")
_extend("C14", "dominance rule for the encryptor selector (type test before filter)",
        "Additionally: the selector filter is only applied to encryptors that passed the isinstance test, so mixed decryptor lists cannot raise AttributeError out of the reader.")

_extend("C13", "rendered filter text parsed and compared as a boolean function for every structure of up to 4 entries",
        "Additionally: per-section version / reboot tags follow the instruction that precedes the section; pfid2_filter_to_str's text is equivalent to the filter bytes for all 170 arrangements of continuation / negation bits over 1..4 entries.")
_extend("C15", "evaluation of module-level step tables with a GF(2)-affinity test of all 256 entries; syntax-tree rule for state kept between calls",
        "Additionally: a table-driven implementation is accepted only if its table is the affine extension of its basis entries and the resulting transfer matrix equals the bit-serial step; early returns and global / nonlocal state are violations.")
_extend("C16", "structural rule for the stream helper loop",
        "Additionally: encrypt_stream / decrypt_stream feed and write every chunk until an empty read, then the final block; CTR counters carry into every byte.")
_extend("C17", "loop-record rules for signed-digit scalar multiplication; sympy polynomial identities in both tiers; call-site binding of the validation flag",
        "Additionally: the precomputed table holds affine doublings of P, every recoding step satisfies k = 2k' + d with d matching the sign of the added point, NAF digits and the NAF walk have the defining shape; decoded coordinates reach the guards unmodified; no call site binds anything but the flag itself to validate_point / verify.")
_extend("C18", "replay of the HMAC operations of generate_k against RFC 6979 3.2 as terms; provenance of the hash function through sign_deterministic; " + _SCEN.replace("AES block function, CRC-16 and EC operations", "fixed-width integer encoding"),
        "Additionally: generate_k is the RFC 6979 script (K/V initialisation, the two update rounds with 00 / 01 markers, T built to ceil(qlen/8) octets, acceptance 1 <= k < q, K/V update on rejection), bits2int / bits2octets as defined; message digest and nonce derivation use the same hash; raw signature encodings round-trip for symbolic (r, s), DER encodings on enumerated boundary values.")
_extend("C19", _SCEN.replace("AES block function, CRC-16 and EC operations", "fixed-width integer encoding") + "; relational normal form of the private-scalar range guard",
        "Additionally: DER primitives (length field, OCTET STRING, SEQUENCE, constructed, BIT STRING with symbolic content of enumerated lengths; INTEGER and OID on enumerated values) encode as X.690 prescribes and the decoders invert them; public-key raw / uncompressed / DER encodings for symbolic coordinates equal X||Y, 04||X||Y and the RFC 5480 SubjectPublicKeyInfo whose 27-byte prefix bec2format strips; private scalars outside [1, n-1] are refused before the public point is formed.")
_extend("C20", "class-body scan for shared lock objects",
        "Additionally: every light switch creates its own mutex in __init__ (a class-level Lock is shared by the read and the write switch).")

# ---- round 5 of breaking changes and the two refactoring rounds
_extend("C01", "sibling agreement of the text codec of the reader's and writer's open() calls",
        "Additionally: both open() calls use the same encoding / errors arguments, so non-ASCII comment text survives a path round trip.")
_extend("C05", "appended bytes must be refused (scenario verdict stricter than for C04)",
        "Additionally: an authentic image followed by extra bytes is rejected by from_binary, not merely read as the original content.")
_extend("C07", "write / read / write-under-another-key scenario against the independent reference writer",
        "Additionally: a file object read under one session key and written under another is encrypted and authenticated entirely under the new key.")
_extend("C10", "path count of traversals of an Iterable parameter; set_config scenarios (list / tuple / iterator of extra blocks)",
        "Additionally: the caller's extra blocks are traversed at most once on any path (a generator gives its items once) and reach the component framed and unchanged.")
_extend("C14", "per-call-site proof that the MAC input is non-empty (exact reads of more than K bytes precede cmac(X[:-K]))",
        "Additionally: every cmac() call reachable from a parser gets provably non-empty data, except the one call site recorded as a known finding.")
_extend("C17", "truth-table rule for the infinity shortcuts of the addition dispatcher; evaluation of the recoding / NAF-walk terms with the checker's arithmetic on a grid of scalars",
        "Additionally: _add skips an operand exactly when its Y or Z is zero (both encodings of infinity occur); the signed-digit steps satisfy k = 2k' + d for scalars of every residue mod 4 however the conditional is spelled.")
_extend("C18", "reuse of the C17 dispatcher and multiply-add rules; bits2int / bits2octets compared with RFC 6979 2.3 on a grid of values",
        "Additionally: the point arithmetic the verdict is computed with satisfies the C17 dispatcher and multiply-add rules.")
_extend("C13", "interpretation of is_known_tagtype on its complete domain (-1..256) against the folded range table",
        "Additionally: a tag type is known exactly when one of the table's ranges contains it, both ends inclusive.")
for _pid in ("C10", "C11", "C16"):
    _extend(_pid, "shape fallback: where a structural rule does not recognise the spelling of a clause and the scenario group for that clause holds, the clause is reported as decided on the enumerated scenarios only",
            "")

# ---- round 8 of breaking changes (state between calls, shared objects, one-shot iterables)
for _pid in ("C01", "C02", "C03", "C04", "C05", "C06", "C07", "C08", "C10", "C11", "C13", "C14"):
    _extend(_pid, "effect rules over every function of the library modules: no module-level, class-level or default-argument state, no in-place change of an entry of a module-level table, no write to the own object outside constructors and the documented mutators",
            "Additionally (a necessary condition of every clause that quantifies over histories): no function of bec2format or of the plug-in adapter keeps state between calls outside the objects it is given, and outside the constructors only the five documented mutation sites write to their own object; whether two calls give equal results is not decided.")
for _pid in ("C16", "C17", "C18", "C19"):
    _extend(_pid, "effect rules over the vendored package: no module-level, class-level or default-argument state",
            "Additionally: no function of the vendored package writes module-level or class-level state (a key-schedule or decoding memo shared by all objects), so results cannot depend on earlier calls on another object through such state.")
for _pid in ("C02", "C07", "C09", "C15"):
    _extend(_pid, "path count of traversals of parameters that may be any iterable, through the library's own call graph",
            "Additionally: a parameter that may be a one-shot iterable (and a local bound to a filter / map / generator object) is traversed at most once on every path, so a generator argument behaves like a list.")
_extend("C20", "alias rule for the shared attributes reached through the instance dictionary and its shallow copies; lock wiring read from the constructor when a switch is bound to its lock",
        "Additionally: the published table and the coordinate tuple are not changed in place through self.__dict__, vars(self) or a shallow copy of it.")
_extend("C18", "the multiplication-table rules of C17 are evaluated for C18 as well",
        "Additionally: the precomputed table a verifying key's point may carry holds affine doublings and is walked as C17 requires.")

# ---- round 9 of breaking changes and the seventh refactoring round
_extend("C17", "evaluation of the ECDH curve guard as a predicate over all identity assignments; evaluation of x() / y() against X / Z^2 and Y / Z^3",
        "Additionally: key agreement raises exactly when the three curves are not all equal; PointJacobi.x() / y() are the affine coordinates for sampled points over three primes.")
_extend("C18", "affine-coordinate evaluation shared with C17", "Additionally: the x coordinate the verifier compares with r is X / Z^2 modulo p.")
_extend("C19", "exception-escape rule with the number-theory helpers' own errors treated as undocumented", "Additionally: no decoder lets numbertheory.Error / SquareRootError / JacobiError escape unconverted.")
_extend("C20", "who-may-write rule for the multiplication table", "Additionally: only the constructors and the one publisher (and helpers reached only from them) assign the table.")
_extend("C16", "data-independence of control flow in the mode and feeder scenarios", "Additionally: no branch of a mode of operation or feeder depends on the value of a byte produced by the block function.")
_extend("C09", "the multiplication-table rules of C17 and the publication rules of C20 are evaluated for C09 as well", "Additionally: the table through which the ephemeral point k*G is computed holds affine doublings and is never visible half built.")

# ---- round 10 of breaking changes (boundaries and combinations of options) and the eighth refactoring round (data representation)
for _pid in ("C01", "C03", "C04", "C05"):
    _extend(_pid, "context rule over the read events of the BF3 reader: no read under a test of the MAC switch",
            "Additionally: MAC checking on and off consume the same fields (the switch selects comparisons only), a necessary condition of reading back with the check off what the writer emits.")
_extend("C17", "structural rule on the NAF walk: every digit of _naf(k) is walked and the accumulator starts at infinity",
        "Additionally: an empty digit string (a multiple of twice the order) yields infinity, not the point.")
_extend("C19", "registry rule for explicit curve parameters: the decoded curve is compared with every registered curve, or looked up in an index whose key is evaluated to be injective on the registered curve literals",
        "Additionally: explicit parameters of a registered curve decode to that curve object (name and OID attached), so the key re-encodes to the bytes it came from.")
_extend("C13", "the tag-type predicate is interpreted on its complete domain against the pinned range table, however its table is written",
        "")

# ---- round 11 of breaking changes and the ninth refactoring round
for _pid in ("C02", "C06"):
    _extend(_pid, "the text-envelope rule of C01 / C03 is evaluated for this property as well",
            "Additionally: the hex lines of the text envelope cover all of the binary image, so the last bytes of a ciphertext cannot be left out of the file.")
_extend("C10", "TLV scenarios require an entry that does not fit to sit alone in its block", "")
_extend("C14", "star-height rule over every constant pattern the library hands to the re module (parsed with the standard pattern parser)",
        "Additionally (termination of the identifier parser): no pattern nests an unbounded repetition in an unbounded repetition, so a failing match cannot take exponential time.")
_extend("C18", "the bits2octets grid varies the input length and the bit length of the order", "")
for _pid in ("C09", "C17"):
    _extend(_pid, "contains_point is evaluated against the curve equation for all integer pairs over four small primes", "")
