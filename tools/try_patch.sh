#!/bin/bash
# usage: tools/try_patch.sh <patch.diff> <ID> [ID...]   -- run checks against a scratch copy of /repo HEAD with the patch applied (never touches /repo)
set -e
patch=$1; shift
d=$(mktemp -d /tmp/trypatch_XXXXXX)
git -C /repo archive HEAD | tar -x -C "$d"
( cd "$d" && patch -p1 -s < "$patch" )
for id in "$@"; do
  BFSA_EVIDENCE_DIR="$d/_ev" /verif/check "$id" --repo "$d" | grep -E "^  rule|^C[0-9]+ |ANALYSIS" | cut -c1-400 | head -12
done
rm -rf "$d"
