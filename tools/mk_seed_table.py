#!/usr/bin/env python3
"""Regenerates DESIGN.md section 11 (which checks catch which seeded changes) from seeded/*/meta.json."""
import glob
import json
import os
import re

VERIF = os.path.dirname(os.path.dirname(os.path.abspath(__file__)))
BEGIN, END = "<!-- seed-table:begin -->", "<!-- seed-table:end -->"
rows = []
benign = []
for f in sorted(glob.glob(os.path.join(VERIF, "seeded", "*", "meta.json"))):
    m = json.load(open(f))
    name = os.path.basename(os.path.dirname(f))
    if m.get("kind") == "behaviour-preserving":
        summ = re.sub(r"\s+", " ", m.get("summary", "")).replace("|", "\\|")
        benign.append("| %s | %s | %s | %s | %s |" % (name, m["property"], summ[:300] + ("..." if len(summ) > 300 else ""), "all 20 silent" if m.get("all_checks_silent") else "**fired: %s / undecided: %s**" % (m.get("checks_fired"), m.get("checks_analysis_error")), m.get("history", "")))
        continue
    rules = []
    for l in m.get("reports", {}).get(m["property"], []):
        mm = re.search(r"rule (\S+) at", l)
        if mm and mm.group(1) not in rules:
            rules.append(mm.group(1))
    summ = re.sub(r"\s+", " ", m.get("summary", "")).replace("|", "\\|")
    if len(summ) > 230:
        summ = summ[:227] + "..."
    hist = m.get("history", "")
    rows.append("| %s | %s | %s | %s | %s | %s |" % (name, m["property"], summ, "yes" if m.get("target_check_fired") else "**no**", ", ".join(m.get("checks_fired", [])) or "-",
                                             (", ".join(r.split(".", 1)[1] for r in rules[:3]) or "-") + ((" — " + hist) if hist else "")))
n = len(rows)
hit = sum(1 for r in rows if "| yes |" in r)
text = [BEGIN, "", "## 11. Seeded changes and the checks that catch them", "",
        "%d confirmed changes (`seeded/<name>/{patch.diff,demo.py,meta.json}`); the property's own check reports %d of them on the tree with the patch applied "
        "(`git -C /repo apply`, all 20 quick checks, `git -C /repo checkout -- .`). \"history\" notes say when a rule had to be added first." % (n, hit), "",
        "| change | property | what was changed | caught by its check | all checks that fire | rules of the property's check (first 3) |",
        "|---|---|---|---|---|---|"] + rows + ["",
        "### 11.1 Behaviour-preserving refactorings (expected: no check fires)", "",
        "%d confirmed refactorings (same layout; the demo prints the same digest with and without the patch); all twenty quick checks were run on the patched tree. \"history\" names the rule that had to be generalised first." % len(benign), "",
        "| change | property whose anchors were edited | what was changed | checks on the patched tree | history |", "|---|---|---|---|---|"] + benign + ["", END]
p = os.path.join(VERIF, "DESIGN.md")
s = open(p).read()
block = "\n".join(text)
if BEGIN in s:
    s = s[:s.index(BEGIN)] + block + s[s.index(END) + len(END):]
else:
    s = s.rstrip("\n") + "\n\n" + block + "\n"
open(p, "w").write(s)
print("section 11: %d changes, %d caught by their own check" % (n, hit))
