#!/usr/bin/env python3
"""Regenerates /verif/MANIFEST.json from the table below (kept in one place so it is always valid)."""
import json
import os

VERIF = os.path.dirname(os.path.dirname(os.path.abspath(__file__)))
BASELINE = "cd /repo && /venv/bin/python -m pytest -ra -q -p no:cacheprovider --timeout=900 --continue-on-collection-errors"

# pid -> (category, technique, text, note)   (only properties with a finished, self-tested check)
CLAIMS = {}
NOT_YET = {}


def claim(pid, category, technique, text, note, design_ref):
    CLAIMS[pid] = dict(category=category, technique=technique, text=text, note=note, design_ref=design_ref)


exec(open(os.path.join(VERIF, "tools", "claims.py")).read())

ALL = ["C%02d" % i for i in range(1, 21)]
checks = []
for pid in ALL:
    if pid not in CLAIMS:
        continue
    c = CLAIMS[pid]
    checks.append({
        "property_id": pid,
        "quick_cmd": "./check %s --tier quick" % pid,
        "thorough_cmd": "./check %s --tier thorough" % pid,
        "evidence_file": "/verif/evidence/%s.json" % pid,
        "replay_cmd_template": "cat {path}",
        "engine": "bfsa",
        "level_claimed": {"category": c["category"], "text": c["text"], "design_ref": c["design_ref"]},
        "level_note": c["note"],
        "technique": c["technique"],
    })
na = [{"property_id": pid, "reason": NOT_YET.get(pid, "static rules for this property are not finished and self-tested yet; no claim is made")} for pid in ALL if pid not in CLAIMS]
manifest = {
    "version": 1,
    "setup_cmd": "true",
    "hooks": {
        "guard": "BEC2FORMAT_VERIF",
        "enable": "none needed: the analysis is read-only (syntax trees of /repo's working tree); no hook or instrumentation exists in /repo",
        "baseline_off_cmd": BASELINE,
        "source_commits": [],
        "add_only": True,
    },
    "engines": [{"name": "bfsa", "path": "/verif/bfsa", "serves_properties": sorted(CLAIMS), "kind_free_text": "repository-specific static analyser: resolved program model, structural abstract interpreter with hash-consed terms (guards, provenance, layouts, exception escape), algebraic abstract domains (GF(2)-affine, byte lanes, length/congruence), constant audits"}],
    "checks": checks,
    "not_applicable": na,
    "notes": "All checks are static: they parse /repo's current working tree with python's ast and never import or execute repository code. Exit 2 (ANALYSIS-ERROR/INCOMPLETE) means the analyser could not decide (missing anchor, unsupported construct); it is never reported as a violation. Genuine defects found on the pinned tree are listed in /verif/KNOWN_FINDINGS.txt.",
}
json.dump(manifest, open(os.path.join(VERIF, "MANIFEST.json"), "w"), indent=1)
print("MANIFEST.json: %d checks, %d not_applicable" % (len(checks), len(na)))
