#!/usr/bin/env python3
"""Runs the pinned suite (guard off; there are no hooks) and compares with /root/.vp/BASELINE.json stable_pass."""
import json, subprocess, sys, tempfile, os, xml.etree.ElementTree as ET
b = json.load(open("/root/.vp/BASELINE.json"))
stable = set(b["stable_pass"])
x = tempfile.mktemp(suffix=".xml")
# run in a scratch worktree of /repo's HEAD: the suite's hypothesis example database (/repo/.hypothesis, git-ignored) must not be touched
wt = tempfile.mkdtemp(prefix="bl_wt_")
subprocess.run(["git", "-C", "/repo", "worktree", "add", "--detach", "--force", wt, "HEAD"], stdout=subprocess.DEVNULL, stderr=subprocess.DEVNULL, check=True)
cmd = b["cmd"].replace("<file>", x).replace("cd /repo", "cd " + wt)
try:
    subprocess.run(cmd, shell=True, stdout=subprocess.DEVNULL, stderr=subprocess.DEVNULL)
finally:
    subprocess.run(["git", "-C", "/repo", "worktree", "remove", "--force", wt])
passed = set()
for tc in ET.parse(x).getroot().iter("testcase"):
    if not any(c.tag in ("failure", "error", "skipped") for c in tc):
        passed.add("%s::%s" % (tc.get("classname"), tc.get("name")))
os.unlink(x)
sample = sorted(stable)[:2]
missing = sorted(s for s in stable if s not in passed)
print("stable:", len(stable), "passed now:", len(passed), "stable missing:", len(missing), "sample id:", sample)
print("\n".join(missing[:20]))
sys.exit(1 if missing else 0)
