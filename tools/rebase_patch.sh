#!/bin/bash
# usage: tools/rebase_patch.sh <patch.diff>  -- if the patch does not apply exactly to /repo HEAD, apply it with fuzz on a scratch copy and rewrite it as an exact diff (original kept as .orig)
p=$1
d=$(mktemp -d /tmp/rebase_XXXXXX)
git -C /repo archive HEAD | tar -x -C "$d"
cd "$d" && git init -q . && git add -A && git -c user.email=a@b -c user.name=x commit -q -m base
if git apply --check "$p" 2>/dev/null; then echo "exact: $p"; cd /; rm -rf "$d"; exit 0; fi
if patch -p1 -s --no-backup-if-mismatch < "$p" > "$d/.patch.log" 2>&1; then
  find . -name "*.orig" -delete
  cp "$p" "$p.orig"
  git diff > "$p"
  echo "rebased: $p"
else
  echo "CONFLICT: $p"; cat "$d/.patch.log" | head -5
fi
cd /; rm -rf "$d"
