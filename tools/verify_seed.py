#!/usr/bin/env python3
"""Confirm a seeded change in a scratch worktree and record it under /verif/seeded/<name>/.

usage: tools/verify_seed.py NAME PROPERTY SEED_DIR [--no-suite] [--benign]

--benign: the change is claimed to be behaviour-preserving (a refactoring).  Then the demo must exit 0 on the pristine tree AND with
the patch, printing the same text both times, and the expected outcome of the checks is that none fires and none fails to decide.

Steps (all in a fresh detached worktree of /repo HEAD under a temp dir, removed afterwards):
  1. demo on the pristine tree must exit 0
  2. patch.diff must apply; every touched file must compile
  3. demo with the patch must exit non-zero
  4. the pinned suite (command from /root/.vp/BASELINE.json) must still pass every stable_pass test
Then: apply the patch to /repo itself (git apply), run every check (quick tier) with evidence redirected to a temp dir,
undo (git checkout -- .), and record which checks fired.  Results go to seeded/<name>/{patch.diff,demo.py,meta.json}.
"""
import json
import os
import shutil
import subprocess
import sys
import tempfile
import xml.etree.ElementTree as ET

VERIF = os.path.dirname(os.path.dirname(os.path.abspath(__file__)))
PY = "/venv/bin/python"


def sh(cmd, cwd=None, env=None, timeout=3600):
    p = subprocess.run(cmd, shell=isinstance(cmd, str), cwd=cwd, env=env, capture_output=True, text=True, timeout=timeout)
    return p.returncode, p.stdout + p.stderr


def run_demo(wt, demo):
    env = dict(os.environ, PYTHONPATH=wt, PYTHONDONTWRITEBYTECODE="1")
    os.makedirs(os.path.join(wt, "SEED"), exist_ok=True)
    shutil.copy(demo, os.path.join(wt, "SEED", "demo.py"))
    return sh([PY, "../SEED/demo.py"], cwd=os.path.join(wt, "appnotes"), env=env, timeout=1800)


def suite(wt):
    b = json.load(open("/root/.vp/BASELINE.json"))
    x = tempfile.mktemp(suffix=".xml")
    cmd = b["cmd"].replace("<file>", x).replace("cd /repo", "cd " + wt)
    # (the suite has a test that sends SIGINT to itself: a background shell starts its children with SIGINT ignored, so the default disposition is restored here)
    import signal

    subprocess.run(cmd, shell=True, stdout=subprocess.DEVNULL, stderr=subprocess.DEVNULL, preexec_fn=lambda: signal.signal(signal.SIGINT, signal.SIG_DFL))
    passed = set()
    for tc in ET.parse(x).getroot().iter("testcase"):
        if not any(c.tag in ("failure", "error", "skipped") for c in tc):
            passed.add("%s::%s" % (tc.get("classname"), tc.get("name")))
    os.unlink(x)
    stable = set(b["stable_pass"])
    return sorted(s for s in stable if s not in passed), len(stable)


def run_checks_on_repo(patch):
    """apply the patch to /repo, run all quick checks with evidence redirected, undo; -> (fired, silent, errors, details)"""
    rc, out = sh(["git", "-C", "/repo", "status", "--porcelain", "--untracked-files=no"])
    if out.strip():
        raise SystemExit("ABORT: /repo working tree is not clean")
    evd = tempfile.mkdtemp(prefix="seedev_")
    fired, silent, errors, details = [], [], [], {}
    try:
        rc, out = sh(["git", "-C", "/repo", "apply", "--exclude=SEED/*", patch])
        if rc != 0:
            raise SystemExit("ABORT: cannot apply to /repo: " + out)
        procs = {}
        for i in range(1, 21):
            pid = "C%02d" % i
            procs[pid] = subprocess.Popen([os.path.join(VERIF, "check"), pid, "--tier", "quick"], stdout=subprocess.PIPE, stderr=subprocess.STDOUT, text=True, env=dict(os.environ, BFSA_EVIDENCE_DIR=evd))
        for pid, p in procs.items():
            o, _ = p.communicate()
            if p.returncode == 1 and "VIOLATION property=%s" % pid in o:
                fired.append(pid)
                details[pid] = [l.strip() for l in o.splitlines() if l.strip().startswith(("rule", "VIOLATION")) or "rule=" in l][:6]
            elif p.returncode == 0:
                silent.append(pid)
            else:
                errors.append(pid)
                details[pid] = o.strip().splitlines()[-3:]
    finally:
        sh(["git", "-C", "/repo", "checkout", "--", "."])
        shutil.rmtree(evd, ignore_errors=True)
    rc, out = sh(["git", "-C", "/repo", "status", "--porcelain", "--untracked-files=no"])
    assert not out.strip(), "/repo not restored"
    return fired, silent, errors, details


def recheck(name):
    """re-run the 20 checks against a recorded change with today's rules and refresh meta.json (the confirmation record is kept)"""
    dst = os.path.join(VERIF, "seeded", name)
    meta = json.load(open(os.path.join(dst, "meta.json")))
    fired, silent, errors, details = run_checks_on_repo(os.path.join(dst, "patch.diff"))
    meta["checks_fired"], meta["checks_analysis_error"], meta["target_check_fired"], meta["reports"] = fired, errors, meta["property"] in fired, details
    if meta.get("kind") == "behaviour-preserving":
        meta["all_checks_silent"] = not fired and not errors
    json.dump(meta, open(os.path.join(dst, "meta.json"), "w"), indent=1)
    print("%s property=%s fired=%s errors=%s target_detected=%s" % (name, meta["property"], fired, errors, meta["property"] in fired))
    return 0


def main():
    args = [a for a in sys.argv[1:] if not a.startswith("--")]
    if "--recheck" in sys.argv:
        return recheck(args[0])
    name, prop, sd = args[:3]
    no_suite = "--no-suite" in sys.argv
    benign = "--benign" in sys.argv
    patch = os.path.join(sd, "patch.diff")
    demo = os.path.join(sd, "demo.py")
    meta_in = json.load(open(os.path.join(sd, "meta.json"))) if os.path.exists(os.path.join(sd, "meta.json")) else {}
    ran = []
    wt = tempfile.mkdtemp(prefix="seedverify_")
    sh(["git", "-C", "/repo", "worktree", "add", "--detach", "--force", wt, "HEAD"])
    ok = True
    try:
        rc, out = run_demo(wt, demo)
        ran.append("demo on pristine scratch worktree: exit %d" % rc)
        if rc != 0:
            print("REJECT: demo fails on the pristine tree\n" + out[-1500:])
            return 1
        pristine_out = out
        rc, out = sh(["git", "-C", wt, "apply", "--exclude=SEED/*", patch])
        if rc != 0:
            print("REJECT: patch does not apply\n" + out)
            return 1
        rc, files = sh(["git", "-C", wt, "diff", "--name-only"])
        touched = [f for f in files.split() if f.endswith(".py")]
        for f in touched:
            src = open(os.path.join(wt, f), encoding="utf-8").read()
            compile(src, f, "exec")
        ran.append("patch applies; %d file(s) compile: %s" % (len(touched), ", ".join(touched)))
        rc, out = run_demo(wt, demo)
        ran.append("demo with patch: exit %d" % rc)
        demo_tail = out.strip().splitlines()[-3:]
        if benign:
            if rc != 0:
                print("REJECT: demo fails with the patch although the change is claimed to be behaviour-preserving\n" + out[-1500:])
                return 1
            # demos print a digest of everything they observed; timing lines may differ from run to run, so the digest lines are compared when there are any
            import re as _re

            dig = lambda o: [_re.sub(r"\b\d+(\.\d+)?\s*m?s\b", "<t>", l) for l in o.splitlines() if "digest" in l.lower()]
            same = (dig(out) == dig(pristine_out)) if dig(pristine_out) else out == pristine_out
            ran.append("demo output with patch %s the output on the pristine tree" % ("equals" if same else "DIFFERS from"))
            if not same:
                print("REJECT: demo output differs between pristine and patched tree")
                return 1
        elif rc == 0:
            print("REJECT: demo passes with the patch")
            return 1
        for s in ("create_bf3file.py", "create_bec2file_with_cust_key.py", "create_bec2file_with_ec_key.py", "verify_dh_secret.py"):
            rc2, o2 = sh([PY, s], cwd=os.path.join(wt, "appnotes"), env=dict(os.environ, PYTHONPATH=wt, PYTHONDONTWRITEBYTECODE="1"))
            ran.append("appnotes/%s with patch: exit %d" % (s, rc2))
        sh(["git", "-C", wt, "clean", "-fdq"])
        if not no_suite:
            missing, n = suite(wt)
            ran.append("pinned suite with patch: %d of %d stable tests missing" % (len(missing), n))
            if missing and len(missing) <= 5:
                # hypothesis-driven tests of the vendored ecdsa package fail at random (also on the pristine tree); re-run just those
                still = []
                for t in missing:
                    tcls, tname = t.split("::")
                    parts = tcls.split(".")
                    k = max(i for i, x in enumerate(parts) if x.startswith("test_"))
                    node = "/".join(parts[:k + 1]) + ".py::" + "::".join(parts[k + 1:] + [tname])
                    good = 0
                    for _ in range(3):
                        sh(["rm", "-rf", os.path.join(wt, ".hypothesis")])
                        rc3, o3 = sh([PY, "-m", "pytest", "-q", "-p", "no:cacheprovider", "--timeout=900", node], cwd=wt)
                        good += rc3 == 0
                    ran.append("re-ran %s three times with patch: %d passes" % (node, good))
                    if good == 0:
                        still.append(t)
                missing = still
            if missing:
                print("REJECT: suite breaks: %s" % missing[:5])
                return 1
    finally:
        sh(["git", "-C", "/repo", "worktree", "remove", "--force", wt])
        shutil.rmtree(wt, ignore_errors=True)
    # ---- run the checks against /repo with the patch applied, then undo
    rc, out = sh(["git", "-C", "/repo", "status", "--porcelain", "--untracked-files=no"])
    if out.strip():
        print("ABORT: /repo working tree is not clean")
        return 2
    evd = tempfile.mkdtemp(prefix="seedev_")
    fired, silent, errors = [], [], []
    details = {}
    try:
        rc, out = sh(["git", "-C", "/repo", "apply", "--exclude=SEED/*", patch])
        if rc != 0:
            print("ABORT: cannot apply to /repo: " + out)
            return 2
        procs = {}
        for i in range(1, 21):
            pid = "C%02d" % i
            env = dict(os.environ, BFSA_EVIDENCE_DIR=evd)
            procs[pid] = subprocess.Popen([os.path.join(VERIF, "check"), pid, "--tier", "quick"], stdout=subprocess.PIPE, stderr=subprocess.STDOUT, text=True, env=env)
        for pid, p in procs.items():
            o, _ = p.communicate()
            if p.returncode == 1 and "VIOLATION property=%s" % pid in o:
                fired.append(pid)
                details[pid] = [l.strip() for l in o.splitlines() if l.strip().startswith(("rule", "VIOLATION")) or "rule=" in l][:6]
            elif p.returncode == 0:
                silent.append(pid)
            else:
                errors.append(pid)
                details[pid] = o.strip().splitlines()[-3:]
    finally:
        sh(["git", "-C", "/repo", "checkout", "--", "."])
        shutil.rmtree(evd, ignore_errors=True)
    rc, out = sh(["git", "-C", "/repo", "status", "--porcelain", "--untracked-files=no"])
    assert not out.strip(), "/repo not restored"
    ran.append("git -C /repo apply; check C01..C20 --tier quick (evidence to a temp dir); git -C /repo checkout -- .")
    dst = os.path.join(VERIF, "seeded", name)
    os.makedirs(dst, exist_ok=True)
    shutil.copy(patch, os.path.join(dst, "patch.diff"))
    shutil.copy(demo, os.path.join(dst, "demo.py"))
    meta = {
        "property": prop,
        "kind": "behaviour-preserving" if benign else "breaks-property",
        "why_equivalent": meta_in.get("why_equivalent", ""),
        "summary": meta_in.get("summary", ""),
        "needs_to_manifest": meta_in.get("needs_to_manifest", ""),
        "files": meta_in.get("files", []),
        "what_i_ran": ran,
        "demo_output_with_patch": demo_tail,
        "checks_fired": fired,
        "checks_analysis_error": errors,
        "target_check_fired": prop in fired,
        "reports": details,
    }
    if not benign:
        meta.pop("why_equivalent")
    else:
        meta["all_checks_silent"] = not fired and not errors
    json.dump(meta, open(os.path.join(dst, "meta.json"), "w"), indent=1)
    if benign:
        print("%s property=%s (behaviour-preserving) fired=%s errors=%s all_silent=%s" % (name, prop, fired, errors, not fired and not errors))
        for k in fired + errors:
            for l in details.get(k, [])[:3]:
                print("   ", l[:300])
        return 0
    print("%s property=%s fired=%s errors=%s target_detected=%s" % (name, prop, fired, errors, prop in fired))
    for l in details.get(prop, [])[:4]:
        print("   ", l[:300])
    return 0


if __name__ == "__main__":
    sys.exit(main())
