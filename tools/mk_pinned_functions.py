#!/usr/bin/env python3
"""Regenerate spec/pinned_functions.json from /repo's current tree (see the comment inside the file)."""
import json
import os
import sys

VERIF = os.path.dirname(os.path.dirname(os.path.abspath(__file__)))
sys.path.insert(0, VERIF)
from bfsa.load import Program  # noqa: E402

p = os.path.join(VERIF, "spec", "pinned_functions.json")
old = json.load(open(p))
prog = Program(os.environ.get("BFSA_REPO", "/repo"))
old["functions"] = sorted(q for q, f in prog.funcs.items() if f.name != "<lambda>")
json.dump(old, open(p, "w"), indent=0)
print(len(old["functions"]), "functions")
