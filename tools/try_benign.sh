#!/bin/bash
# usage: tools/try_benign.sh <patch.diff>   -- run ALL checks against a scratch copy of /repo HEAD with a (claimed behaviour-preserving) patch applied; prints only checks that are not silent
set -e
patch=$1
d=$(mktemp -d /tmp/trybenign_XXXXXX)
git -C /repo archive HEAD | tar -x -C "$d"
( cd "$d" && patch -p1 -s < "$patch" )
for i in $(seq -w 1 20); do
  ( rc=0; BFSA_EVIDENCE_DIR="$d/_ev$i" /verif/check C$i --repo "$d" > "$d/out$i.txt" 2>&1 || rc=$?; echo $rc > "$d/rc$i.txt" ) &
done
wait
for i in $(seq -w 1 20); do
  rc=$(cat "$d/rc$i.txt")
  if [ "$rc" != "0" ]; then echo "C$i rc=$rc"; grep -E "^  rule|ANALYSIS" "$d/out$i.txt" | grep -v "KNOWN" | cut -c1-420 | head -8; fi
done
echo "done $(basename $(dirname $(dirname $patch)))"
rm -rf "$d"
