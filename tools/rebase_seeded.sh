#!/bin/bash
# usage: tools/rebase_seeded.sh <seeded-name> <old-commit>  -- re-base seeded/<name>/patch.diff (which applied, with fuzz, to <old-commit> of /repo) onto /repo HEAD with a 3-way merge in a scratch repository
name=$1; old=$2
p=/verif/seeded/$name/patch.diff
d=$(mktemp -d /tmp/rebseed_XXXXXX)
cd "$d" && git init -q . && git -C /repo archive "$old" | tar -x -C "$d" && git add -A && git -c user.email=a@b -c user.name=x commit -q -m old
base=$(git rev-parse --abbrev-ref HEAD)
git checkout -q -b change
if ! patch -p1 -s --no-backup-if-mismatch < "$p" > /dev/null 2>&1; then echo "CONFLICT(old): $name"; cd /; rm -rf "$d"; exit 1; fi
find . -name "*.orig" -delete; git add -A; git -c user.email=a@b -c user.name=x commit -q -m change
git checkout -q "$base"
git -C /repo diff "$old" HEAD | git apply && git add -A && git -c user.email=a@b -c user.name=x commit -q -m new
git checkout -q change
if git -c user.email=a@b -c user.name=x rebase -q "$base" > /dev/null 2>&1; then
  cp "$p" "$p.before-rebase"; git diff "$base" change > "$p"; echo "rebased: $name ($(wc -l < "$p") lines)"
else
  echo "CONFLICT(rebase): $name"; git diff --name-only --diff-filter=U
fi
cd /; rm -rf "$d"
