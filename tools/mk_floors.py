#!/usr/bin/env python3
"""Add a floor of 1 for every rule that produced at least one obligation in the evidence of the last run on the clean tree and has no floor yet
(existing floors, in particular the full-count floors of the constant tables, are kept).  Run after all 20 checks passed on the unchanged tree."""
import json
import os

V = os.path.dirname(os.path.dirname(os.path.abspath(__file__)))
fl = json.load(open(os.path.join(V, "spec", "floors.json")))
added = 0
for i in range(1, 21):
    pid = "C%02d" % i
    ev = json.load(open(os.path.join(V, "evidence", pid + ".json")))
    rules = ev.get("coverage", {}).get("rules") or ev.get("rules") or {}
    cur = fl.setdefault(pid, {})
    for r, n in rules.items():
        if n >= 1 and r not in cur and ".escape:" not in r:  # (escape rules are per-site discharges: the site may legitimately disappear)
            cur[r] = 1
            added += 1
    fl[pid] = dict(sorted(cur.items()))
json.dump(fl, open(os.path.join(V, "spec", "floors.json"), "w"), indent=1, sort_keys=True)
print("floors: %d added, %d total" % (added, sum(len(v) for v in fl.values())))
