#!/bin/bash
# usage: tools/dbg_all.sh <dir>  -- run all 20 checks against an existing scratch tree, print non-silent ones
d=$1
for i in $(seq -w 1 20); do
  ( rc=0; BFSA_EVIDENCE_DIR="$d/_ev$i" /verif/check C$i --repo "$d" > "$d/out$i.txt" 2>&1 || rc=$?; echo $rc > "$d/rc$i.txt" ) &
done
wait
for i in $(seq -w 1 20); do
  rc=$(cat "$d/rc$i.txt")
  if [ "$rc" != "0" ]; then echo "C$i rc=$rc"; grep -E "^  rule|ANALYSIS" "$d/out$i.txt" | grep -v "KNOWN" | cut -c1-${W:-420} | head -8; fi
done
rm -rf "$d"/_ev* "$d"/out*.txt "$d"/rc*.txt
echo "done $d"
